#!/bin/sh
# usage: tools/sweep.sh <first-seed> <last-seed> [tier]   — runs every claimed check for each seed, prints only problems
TIER="${3:-quick}"
IDS=$(python3 -c "import json;print(' '.join(c['property_id'] for c in json.load(open('MANIFEST.json'))['checks']))")
for s in $(seq "$1" "$2"); do
  for id in $IDS; do
    out=$(VERIF_SEED=$s ./check $id $TIER 2>&1); rc=$?
    if [ $rc -ne 0 ]; then echo "seed=$s id=$id rc=$rc"; echo "$out" | grep -E "scenario=|VIOLATION|HARNESS|HANG|error" | head -5; fi
  done
  echo "seed $s done"
done
