#!/bin/sh
# usage: confirm_seeded.sh <worktree> [mutant-dir-name, default MUTANT] ; prints CONFIRM lines. Expects $M/patch.diff, the demo as
# crates/*/tests/mutant_demo.rs (or an in-crate module wired in by $M/demo_mod.diff) and
# optionally $M/DEMO_CMD.
D="$1"; M="${2:-MUTANT}"; cd "$D" || exit 2
B=$(basename "$D")-$M
DEMO_CMD="cargo test -p anemo --offline --test mutant_demo"
[ -f $M/DEMO_CMD ] && DEMO_CMD="$(cat $M/DEMO_CMD)"
git checkout -- crates >/dev/null 2>&1
rm -f crates/*/tests/mutant_demo.rs
mkdir -p crates/anemo/tests crates/anemo-tower/tests
[ -f "$M/mutant_demo.rs" ] && [ ! -f "$M/demo_mod.diff" ] && cp "$M/mutant_demo.rs" "$(if grep -q anemo-tower "$M/DEMO_CMD" 2>/dev/null; then echo crates/anemo-tower/tests; else echo crates/anemo/tests; fi)/mutant_demo.rs"
git apply $M/patch.diff || { echo "CONFIRM $D $M patch-does-not-apply"; exit 1; }
DEMO=$(ls crates/*/tests/mutant_demo.rs 2>/dev/null | head -1)
[ -n "$DEMO" ] && mv "$DEMO" /tmp/$B.demo.rs
if cargo test --workspace --offline >/tmp/$B.suite.log 2>&1; then echo "CONFIRM $D $M suite-with-change=PASS"; else echo "CONFIRM $D $M suite-with-change=FAIL"; fi
[ -n "$DEMO" ] && mv /tmp/$B.demo.rs "$DEMO"
[ -f $M/demo_mod.diff ] && git apply $M/demo_mod.diff
if $DEMO_CMD >/tmp/$B.demo1.log 2>&1; then echo "CONFIRM $D $M demo-with-change=PASS(unexpected)"; else echo "CONFIRM $D $M demo-with-change=FAIL(expected)"; fi
git apply -R $M/patch.diff
if $DEMO_CMD >/tmp/$B.demo2.log 2>&1; then echo "CONFIRM $D $M demo-without-change=PASS(expected)"; else echo "CONFIRM $D $M demo-without-change=FAIL(unexpected)"; fi
git checkout -- crates >/dev/null 2>&1; rm -f crates/*/tests/mutant_demo.rs
rmdir crates/anemo/tests crates/anemo-tower/tests 2>/dev/null; true
