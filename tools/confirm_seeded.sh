#!/bin/sh
# usage: confirm_seeded.sh <worktree> ; prints CONFIRM lines. Expects MUTANT/patch.diff and the demo
# as crates/anemo/tests/mutant_demo.rs (or named in MUTANT/DEMO_CMD).
D="$1"; cd "$D" || exit 2
DEMO_CMD="cargo test -p anemo --offline --test mutant_demo"
[ -f MUTANT/DEMO_CMD ] && DEMO_CMD="$(cat MUTANT/DEMO_CMD)"
git checkout -- crates >/dev/null 2>&1
git apply MUTANT/patch.diff || { echo "CONFIRM $D patch-does-not-apply"; exit 1; }
DEMO=crates/anemo/tests/mutant_demo.rs
[ -f "$DEMO" ] && mv "$DEMO" /tmp/$(basename $D).demo.rs
if cargo test --workspace --offline >/tmp/$(basename $D).suite.log 2>&1; then echo "CONFIRM $D suite-with-change=PASS"; else echo "CONFIRM $D suite-with-change=FAIL"; fi
[ -f /tmp/$(basename $D).demo.rs ] && mv /tmp/$(basename $D).demo.rs "$DEMO"
if $DEMO_CMD >/tmp/$(basename $D).demo1.log 2>&1; then echo "CONFIRM $D demo-with-change=PASS(unexpected)"; else echo "CONFIRM $D demo-with-change=FAIL(expected)"; fi
git apply -R MUTANT/patch.diff
if $DEMO_CMD >/tmp/$(basename $D).demo2.log 2>&1; then echo "CONFIRM $D demo-without-change=PASS(expected)"; else echo "CONFIRM $D demo-without-change=FAIL(unexpected)"; fi
git apply MUTANT/patch.diff
