#!/bin/sh
# usage: confirm_seeded.sh <worktree> ; prints CONFIRM lines. Expects MUTANT/patch.diff, the demo as
# crates/*/tests/mutant_demo.rs (or an in-crate module wired in by MUTANT/demo_mod.diff) and
# optionally MUTANT/DEMO_CMD.
D="$1"; cd "$D" || exit 2
B=$(basename "$D")
DEMO_CMD="cargo test -p anemo --offline --test mutant_demo"
[ -f MUTANT/DEMO_CMD ] && DEMO_CMD="$(cat MUTANT/DEMO_CMD)"
git checkout -- crates >/dev/null 2>&1
git apply MUTANT/patch.diff || { echo "CONFIRM $D patch-does-not-apply"; exit 1; }
DEMO=$(ls crates/*/tests/mutant_demo.rs 2>/dev/null | head -1)
[ -n "$DEMO" ] && mv "$DEMO" /tmp/$B.demo.rs
if cargo test --workspace --offline >/tmp/$B.suite.log 2>&1; then echo "CONFIRM $D suite-with-change=PASS"; else echo "CONFIRM $D suite-with-change=FAIL"; fi
[ -n "$DEMO" ] && mv /tmp/$B.demo.rs "$DEMO"
[ -f MUTANT/demo_mod.diff ] && git apply MUTANT/demo_mod.diff
if $DEMO_CMD >/tmp/$B.demo1.log 2>&1; then echo "CONFIRM $D demo-with-change=PASS(unexpected)"; else echo "CONFIRM $D demo-with-change=FAIL(expected)"; fi
git apply -R MUTANT/patch.diff
if $DEMO_CMD >/tmp/$B.demo2.log 2>&1; then echo "CONFIRM $D demo-without-change=PASS(expected)"; else echo "CONFIRM $D demo-without-change=FAIL(unexpected)"; fi
git apply MUTANT/patch.diff
