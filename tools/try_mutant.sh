#!/bin/sh
# usage: try_mutant.sh <property> <runs> <python-snippet-file that edits /repo>   (dev helper)
# applies the edit to /repo, rebuilds, runs the check, reverts.
python3 "$3" || { echo "mutation failed"; cd /repo && git checkout -- .; exit 2; }
cd /repo && git diff --stat | tail -1
cd /verif/sim && cargo build --release 2>&1 | grep -E "^error" -A12 | head -30
./target/release/sim check "$1" --runs "$2" 2>&1 | grep -E "scenario=|exit=|^VIOL|KNOWN"
cd /repo && git checkout -- .
cd /verif/sim && cargo build --release 2>&1 | grep -E "^error"
