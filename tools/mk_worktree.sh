#!/bin/sh
# usage: mk_worktree.sh <property-id> <suffix>   -> /tmp/wt-<id>-<suffix> with PROPERTY.md
ID=$1; SUF=$2; D=/tmp/wt-$ID-$SUF
git -C /repo worktree add --detach "$D" HEAD >/dev/null 2>&1 || exit 1
python3 - "$ID" "$D" <<'E'
import json,sys
pid,d=sys.argv[1],sys.argv[2]
for l in open('/verif/properties.jsonl'):
    p=json.loads(l)
    if p['id']==pid:
        open(d+'/PROPERTY.md','w').write(f"# Property {pid}: {p['title']}\n\n## Statement\n{p['statement']}\n\n## Quantifier\n{p['quantifier']['text']}\n\n## Why the existing tests cannot settle it\n{p['why_tests_cant']}\n")
E
mkdir -p "$D/MUTANT"
echo "$D"
