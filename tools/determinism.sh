#!/bin/sh
# Determinism proof: N seeds per scenario, each run twice in-process (selftest compares), in two
# processes with 16 workers and one with 3 workers; the printed (scenario, index, seed, log hash)
# lists must be byte-identical.  usage: tools/determinism.sh [N]
N="${1:-64}"
cd /verif/sim && cargo build --release --offline >/dev/null 2>&1 || exit 2
./target/release/sim selftest --n "$N" --print --workers 16 > /tmp/det_a.txt 2>/tmp/det_a.err || { cat /tmp/det_a.err; exit 2; }
./target/release/sim selftest --n "$N" --print --workers 16 > /tmp/det_b.txt 2>/tmp/det_b.err || exit 2
./target/release/sim selftest --n "$N" --print --workers 3 > /tmp/det_c.txt 2>/tmp/det_c.err || exit 2
if cmp -s /tmp/det_a.txt /tmp/det_b.txt && cmp -s /tmp/det_a.txt /tmp/det_c.txt; then
  echo "determinism: $(wc -l < /tmp/det_a.txt) (scenario, seed) pairs x 2 in-process runs x 3 processes (16, 16 and 3 workers): identical event-log hashes"
  tail -1 /tmp/det_a.err
else
  echo "determinism: DIVERGENCE"; diff /tmp/det_a.txt /tmp/det_b.txt | head; diff /tmp/det_a.txt /tmp/det_c.txt | head; exit 2
fi
rm -f /tmp/det_[abc].txt /tmp/det_[abc].err
