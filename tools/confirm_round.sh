#!/bin/sh
# usage: tools/confirm_round.sh <suffix> ID...
SUF=$1; shift
for id in "$@"; do
  ( for m in MUTANT1 MUTANT2 MUTANT3; do [ -d /tmp/wt-$id-$SUF/$m ] && /verif/tools/confirm_seeded.sh /tmp/wt-$id-$SUF $m; done > /tmp/confirm-$id-$SUF.log 2>&1 ) &
done
wait
