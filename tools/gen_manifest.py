#!/usr/bin/env python3
"""Regenerates /verif/MANIFEST.json from the table below (single source of truth)."""
import json, subprocess, os

HOOK_COMMITS = subprocess.run(
    ["git", "-C", "/repo", "log", "--format=%H %s", "--grep=^verif hook"],
    capture_output=True, text=True).stdout.strip().splitlines()

TECH = "deterministic simulation with fault injection (seeded search over schedules and fault sequences; whole anemo networks on an in-memory datagram fabric under a virtual clock)"

# id -> (category, design_ref, text, note, technique)
NET_NOTE = "Real anemo/quinn/rustls/tokio code on a simulated socket, clock and scheduler (hooks H1-H7 in /repo; the order in which runnable tasks are polled is drawn per run from fifo / rare-swap / lifo / random through a seam in the simulator's vendored tokio, /verif/sim/vendor); bounded node counts, run lengths and message sizes; one thread: interleavings at await-point granularity, a CPU-bound handler on another worker thread is modelled by a task that is neither polled nor dropped for a while; TLS randomness real (contents only)."
CLAIMED = {
 "C01": ("exploration", "DESIGN.md §8 C01",
   "Seeded search over adversarial handshakes: a raw QUIC endpoint holding only key K' dials / is dialed by real Networks presenting replayed, re-signed, expired, multi-certificate, byte-mutated and missing certificates under loss/duplication/corruption; every PeerId a Network returns, lists, announces or attributes on requests/responses must be a key the remote endpoint holds (ground-truth ledger); controls prove the adversary is admitted under its own identity. Single-byte mutations and non-Ed25519 certificates are also run directly against the three certificate verifiers. Sampling, not proof.",
   NET_NOTE, TECH),
 "C02": ("exploration", "DESIGN.md §8 C02",
   "Seeded search: 2-3 real Networks issue concurrent RPCs (up to 64 in flight, beyond the stream limit) in both directions with PRNG content 0..1 MiB (thorough 4 MiB), PRNG handler durations and a PRNG fault schedule (loss, duplication, reordering, corruption, delay spikes, partitions, stalls); oracle over the recorded history: each nonce reaches a handler at most once with exactly the sent content and sender, every Ok response is exactly the handler's response for that nonce; fault-free configuration separately with the strict oracle; bounded liveness as progress after faults stop.",
   NET_NOTE, TECH),
 "C03": ("exploration", "DESIGN.md §8 C03",
   "Seeded search over address books: each dialed address hosts the expected peer, another honest identity, an impostor replaying the expected certificate (with the acknowledgement implemented) or nobody; concurrent connect/connect_with_peer_id under handshake loss; Ok(p) implies the endpoint reached holds p's key, p equals the expectation and p was listed before the call returned; mismatches never produce NewPeer, listing or handler invocations on either side.",
   NET_NOTE, TECH),
 "C04": ("exploration", "DESIGN.md §8 C04",
   "Two engines: (a) network histories of dials, re-dials (replacement), disconnects, remote closes, restarts and partitions among 3-5 Networks with observers calling peers()/peer()/subscribe() at PRNG instants; per subscription snapshot+events must reproduce peers(), alternate strictly per peer and never lose a replacement; (b) the real active-peer set driven directly with real connections in seeded operation orders against a reference map, where the late exit of a replaced connection's handler is produced on every run.",
   NET_NOTE + " Preemption between two lock acquisitions is simulated through hook H7; races that need two OS threads inside one synchronous critical section are out of reach (DESIGN.md §11).", TECH),
 "C05": ("exploration", "DESIGN.md §8 C05",
   "Seeded search: two real Networks dial each other with PRNG-chosen offsets, per-datagram latencies, duplication, reordering and (separately) loss until both dials returned; after a quiet period derived from the configured timeouts each must list the other exactly once, RPCs succeed both ways, no further events arrive and, when both dials succeeded, the survivor is the connection dialed by the greater PeerId; plus the complete tie-break table against the reference rule.",
   NET_NOTE, TECH),
 "C06": ("exploration", "DESIGN.md §8 C06",
   "Seeded search over hostile scripts: an admitted raw QUIC peer writes random, mutated, truncated-at-every-offset and huge-length-prefixed bytes, resets/stops/abandons streams, opens uni streams, sends datagrams, exceeds stream limits and closes abruptly while an honest prober keeps calling; no panic, the Network stays open, every honest RPC and every well-formed RPC of the hostile peer is answered correctly, and new honest connections are still accepted.",
   NET_NOTE, TECH),
 "C07": ("fault_enumeration", "DESIGN.md §8 C07",
   "The real codecs over a simulated byte stream (short reads/writes, Pending, EOF and I/O error at chosen offsets): per generated message every strict prefix, every altered preamble byte, every version != 1, every status code outside the closed set (all 65536) is enumerated and must be rejected without panic; encoder output equals an independent reference encoding and fixed golden vectors; decode(encode(m)) = m with extensions never travelling.",
   "Wire codecs reached through cfg-guarded wrappers (hook H6); reference encoder written from the property text; message generator is sampled, the listed sub-spaces are enumerated completely per message.", "deterministic simulation of the byte-stream seam with fault enumeration (EOF / error / short I/O at every offset)"),
 "C08": ("exploration", "DESIGN.md §8 C08",
   "Seeded search over shutdown instants: 2-4 Networks with RPCs in both directions, dials to dead addresses, inbound handshakes over lossy links and concurrent API calls at the moment of explicit or drop-triggered shutdown, plus runtime teardown and partial teardown (quinn driver tasks aborted, fatal recv error) at PRNG instants; shutdown returns within the idle-wait bound, the address is re-bindable at once, every service clone is dropped, subscribers drain then end, weak references stop upgrading, remotes observe the loss, no API call hangs, no panic, and the simulation thread never stops making progress (watchdog).",
   NET_NOTE + " Handlers that are CPU-bound at the moment of shutdown are included (held tasks); cancelling anemo's own tasks one by one during a multi-threaded runtime teardown has no add-only seam (DESIGN.md §11).", TECH),
 "C09": ("exploration", "DESIGN.md §8 C09",
   "Seeded search over histories of dials, disconnects and restarts among 3-5 Networks under a PRNG schedule of partitions, one-way blackholes, loss bursts and heals, followed by a fault-free tail longer than idle timeout + connect timeout: at the end A lists B iff B lists A and every listed peer answers an RPC; disconnect removes at once with LostPeer(Requested); every one-sided close/loss is reported by the other side within idle timeout + keep-alive interval + latency.",
   NET_NOTE, TECH),
 "C10": ("exploration", "DESIGN.md §8 C10",
   "Seeded search over sequential admission histories (arrivals, explicit and background outbound dials, disconnects, replacements, affinity changes at run time) for limits {none,0,1,2,3} against the reference admission rule; the dialer's connect is Ok iff the model admits, peers() equals the model after every step; lossy configuration checks 'never over-admits' only. Second engine: the known-peer table the admission rule reads, under real threads with Miri's seeded scheduler (readers next to writers of other entries: an entry nobody touches is always found).",
   NET_NOTE, TECH),
 "C11": ("exploration", "DESIGN.md §8 C11",
   "Seeded search over (inbound default, outbound default, timeout header incl. 0, huge, overflowing, non-numeric, handler duration) on a constant-latency link so instants are exact to the millisecond: model deadline per side = min(default, parsed header); the handler is dropped exactly at the server deadline with a RequestTimeout reply or the caller errors exactly at its deadline; cases within 2L+quantum of a boundary are skipped; the real Builder::start wiring is what is exercised.",
   NET_NOTE, TECH),
 "C12": ("exploration", "DESIGN.md §8 C12",
   "Seeded search over abandonment instants (before the stream opens, mid request, while the handler runs, mid response, never; by dropping the future or by the outbound timeout) across 10-400 calls against stream limits 2-8 with sibling calls: every handler of an abandoned call is dropped, within 8L+10 ms (one-way latency + congestion-window and pacing delay) on a constant-latency link without bulk data or loss and within idle timeout otherwise; afterwards no handler is in flight and limit-many fresh calls succeed at once; siblings get their own responses.",
   NET_NOTE, TECH),
 "C13": ("exploration", "DESIGN.md §8 C13",
   "Seeded search over known-peer tables, interval/backoff/cap configurations and reachability schedules spanning minutes of virtual time; connection attempts are observed on the fabric (first QUIC Initial with a fresh 20-byte destination id): never to self, Allowed/Never peers, connected or already-dialed peers; after k consecutive failures no earlier than min(max, k*step) after the noticing tick; addresses rotate in order; the in-flight cap holds; reachable High peers are connected within the stated bounds.",
   NET_NOTE + " Jitter and eligible order fixed through hooks H3/H4.", TECH),
 "C14": ("exploration", "DESIGN.md §8 C14",
   "Seeded search over (primary, alternate) name configurations for both ends and both dial directions, plus an adversarial dialer choosing SNI and certificate name independently: established iff the dialer's primary name is accepted by the listener (fault-free), only-if under loss; a dialer never offers its alternate name (SNI observed by an adversarial listener); accepted SNI with a certificate for another name is refused.",
   NET_NOTE, TECH),
 "C15": ("exploration", "DESIGN.md §8 C15",
   "Seeded search over limit placement {caller, callee, both, neither}, limit values and request/response header and body sizes at limit-2..limit+2 (header sizes from the reference encoder): within all limits delivered intact; above the sender's limit refused before transmission with no handler invocation; above the receiver's limit only that RPC fails; never a hang, a LostPeer or a broken follow-up RPC; thorough adds the 8 MiB boundary with no limit configured.",
   NET_NOTE, TECH),
 "C18": ("exploration", "DESIGN.md §8 C18",
   "Seeded search over arrival, completion, failure and cancellation schedules from 2-4 peers through clones of one real InflightLimitLayer, driven directly on the virtual clock and end to end behind a Network: per-peer gauge never exceeds the limit, ReturnError refuses exactly when the model is at the limit, Block admits when a slot frees, no permit leaks after long histories, one peer never delays another. Second engine (DESIGN.md 13.8): the same layer driven by 2-4 real threads under Miri's seeded scheduler, which preempts at arbitrary points of synchronous code - what a single-threaded simulation cannot do; every (case, seed) is one exactly repeatable thread interleaving.",
   "Real anemo-tower layer and tokio semaphore under the simulator's scheduler and virtual clock; bounded histories.", TECH),
 "C19": ("exploration", "DESIGN.md §8 C19",
   "Seeded search on simulated time: one real RateLimitLayer (governor's GCRA on its own MonotonicClock, which follows the simulated clock; waits are simulated timers) with burst 1-8 and one cell per 2 ms - 2 s, 1-4 peers, 5-120 requests at PRNG instants over up to 40 periods through clones and through several services of one layer, both wait modes, cancelled waiters; oracles: every window of a peer's admissions against a bucket of burst cells (replay of the actual admission instants), refusals only when less than one cell is available, immediate, with a positive hint, never reaching the service; in Block mode every request admitted no later than the first-come-first-served schedule of its own quota plus one period; per-peer independence by comparison with a second limiter that sees only that peer. A second scenario keeps the frozen regime (one cell per hour). Known finding F-D: governor 0.6.3 keeps burst+1 cells once a bucket has been full. Second engine (DESIGN.md 13.8): the same layer driven by 2-4 real threads under Miri's seeded scheduler, which preempts at arbitrary points of synchronous code - what a single-threaded simulation cannot do; every (case, seed) is one exactly repeatable thread interleaving.",
   "Real anemo-tower layer and real governor 0.6.3 source; the simulator build switches governor's optional quanta feature off (vendored manifest) so that its clock is std::time::Instant, which the clock seam answers with simulated time, and replaces futures-timer by a Delay on the tokio clock (DESIGN.md 13.7). The production build's cycle-counter clock and timer thread are not exercised.", TECH),
 "C20": ("exploration", "DESIGN.md §8 C20",
   "Seeded search end to end (sender identity comes from the simulated handshake, allow-list a PRNG subset of 3-5 peers, concurrent requests over the faulty fabric) and directly through clones of the layered service with listed/unlisted/absent senders and closure authorizers returning arbitrary responses: the wrapped service's log contains exactly the accepted requests and refusals carry exactly the authorizer's response. Second engine (DESIGN.md 13.8): the same layer driven by 2-4 real threads under Miri's seeded scheduler, which preempts at arbitrary points of synchronous code - what a single-threaded simulation cannot do; every (case, seed) is one exactly repeatable thread interleaving.",
   "Real anemo-tower layer; the layer as shipped holds no mutable state, so the schedule dimension is inert for it - not for changes that add caches or lazily built indexes, which the thread-interleaving engine is there for.", TECH),
}

NOT_APPLICABLE = {
 "C16": "pure, synchronous function of (route table, route string): no schedule, clock, fault or interleaving for a simulator to own; deciding it is input generation, not simulation (DESIGN.md §9)",
 "C17": "quantifies over programs (service definitions fed to the code generator) plus a pure Status<->Response mapping; nothing for a simulator to schedule or fault (DESIGN.md §9)",
}

PENDING_REASON = "check not built yet in this revision of /verif (work in progress; see DESIGN.md §8 for the planned simulation)"

def main():
    props = [json.loads(l)["id"] for l in open("/verif/properties.jsonl")]
    checks = []
    built = set(l.split()[0] for l in subprocess.run(["/verif/sim/target/release/sim", "list"], capture_output=True, text=True).stdout.splitlines())
    for pid in list(CLAIMED):
        if pid not in built:
            del CLAIMED[pid]
    for pid in props:
        if pid not in CLAIMED:
            continue
        cat, ref, text, note, tech = CLAIMED[pid]
        checks.append({
            "property_id": pid,
            "quick_cmd": f"./check {pid} quick",
            "thorough_cmd": f"./check {pid} thorough",
            "evidence_file": f"/verif/evidence/{pid}.json",
            "replay_cmd_template": "./check replay {path}",
            "engine": "streamsim" if pid == "C07" else ("netsim+threads" if pid in ("C10", "C18", "C19", "C20") else "netsim"),
            "level_claimed": {"category": cat, "text": text, "design_ref": ref},
            "level_note": note,
            "technique": tech,
        })
    na = []
    for pid in props:
        if pid in CLAIMED:
            continue
        na.append({"property_id": pid, "reason": NOT_APPLICABLE.get(pid, PENDING_REASON)})
    manifest = {
        "version": 1,
        "setup_cmd": "cd /verif/sim && CARGO_NET_OFFLINE=true cargo build --release --offline && ./target/release/sim selftest --n 8 && cd /verif/miri && CARGO_NET_OFFLINE=true cargo +nightly miri run --offline -q -- C20 0",
        "hooks": {
            "guard": "bmwill_anemo_verif",
            "enable": "RUSTFLAGS='--cfg bmwill_anemo_verif --cfg tokio_unstable' (set in /verif/sim/.cargo/config.toml; the simulator crate path-depends on /repo/crates/anemo and /repo/crates/anemo-tower, so every check rebuilds from /repo's working tree). Seams outside /repo, in the simulator's own build only ([patch.crates-io] in /verif/sim/Cargo.toml): vendor/tokio (1.53.1 + runtime::sim_sched: order of runnable tasks, held tasks; time::sim_advance_without_yield: CPU time passing inside a poll), vendor/governor (0.6.3, quanta feature off), vendor/futures-timer (Delay on the tokio clock)",
            "baseline_off_cmd": "cd /repo && cargo test --workspace --no-fail-fast --offline",
            "source_commits": [l.split()[0] for l in HOOK_COMMITS][::-1],
            "add_only": True,
        },
        "engines": [
            {"name": "netsim", "path": "/verif/sim", "serves_properties": [c["property_id"] for c in checks if c["engine"] == "netsim"],
             "kind_free_text": "deterministic simulation: real anemo Networks + real quinn/rustls on an in-memory datagram fabric, tokio paused clock, seeded faults, replay + minimisation"},
            {"name": "netsim+threads", "path": "/verif/sim + /verif/miri", "serves_properties": [c["property_id"] for c in checks if c["engine"] == "netsim+threads"],
             "kind_free_text": "the netsim engine, followed by the anemo-tower layer under real threads with Miri's seeded scheduler (preemption at arbitrary points of synchronous code; one (case, seed) = one repeatable thread interleaving)"},
            {"name": "streamsim", "path": "/verif/sim", "serves_properties": [c["property_id"] for c in checks if c["engine"] == "streamsim"],
             "kind_free_text": "wire codecs over a simulated byte stream with short reads/writes, EOF and I/O errors at every offset"},
        ],
        "checks": checks,
        "not_applicable": na,
        "notes": "Exit codes: 0 held, 1 violation (VIOLATION property=<id> replay=<path>), 2 harness error. VERIF_SEED selects the base seed (default 1); run i uses splitmix(base, i). Known findings: /verif/known_findings.txt.",
    }
    json.dump(manifest, open("/verif/MANIFEST.json", "w"), indent=1)
    print("claimed:", [c["property_id"] for c in checks])

main()
