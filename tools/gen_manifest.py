#!/usr/bin/env python3
"""Regenerates /verif/MANIFEST.json from the table below (single source of truth)."""
import json, subprocess, os

HOOK_COMMITS = subprocess.run(
    ["git", "-C", "/repo", "log", "--format=%H %s", "--grep=^verif hook"],
    capture_output=True, text=True).stdout.strip().splitlines()

TECH = "deterministic simulation with fault injection (seeded search over schedules and fault sequences; whole anemo networks on an in-memory datagram fabric under a virtual clock)"

# id -> (category, design_ref, text, note, technique)
CLAIMED = {
 "C05": ("exploration", "DESIGN.md §8 C05",
   "Seeded search: two real Networks dial each other with PRNG-chosen offsets, per-datagram latencies, duplication, reordering and (separately) loss until both dials returned; after a quiet period derived from the configured timeouts each must list the other exactly once, RPCs succeed both ways, no further events arrive and, when both dials succeeded, the survivor is the connection dialed by the greater PeerId. Sampling, not proof.",
   "Real anemo/quinn/rustls code on a simulated socket, clock and scheduler; bounded to 2 nodes; single-threaded interleavings at await-point granularity.",
   TECH),
}

NOT_APPLICABLE = {
 "C16": "pure, synchronous function of (route table, route string): no schedule, clock, fault or interleaving for a simulator to own; deciding it is input generation, not simulation (DESIGN.md §9)",
 "C17": "quantifies over programs (service definitions fed to the code generator) plus a pure Status<->Response mapping; nothing for a simulator to schedule or fault (DESIGN.md §9)",
}

PENDING_REASON = "check not built yet in this revision of /verif (work in progress; see DESIGN.md §8 for the planned simulation)"

def main():
    props = [json.loads(l)["id"] for l in open("/verif/properties.jsonl")]
    checks = []
    for pid in props:
        if pid not in CLAIMED:
            continue
        cat, ref, text, note, tech = CLAIMED[pid]
        checks.append({
            "property_id": pid,
            "quick_cmd": f"./check {pid} quick",
            "thorough_cmd": f"./check {pid} thorough",
            "evidence_file": f"/verif/evidence/{pid}.json",
            "replay_cmd_template": "./check replay {path}",
            "engine": "netsim" if pid not in ("C07",) else "streamsim",
            "level_claimed": {"category": cat, "text": text, "design_ref": ref},
            "level_note": note,
            "technique": tech,
        })
    na = []
    for pid in props:
        if pid in CLAIMED:
            continue
        na.append({"property_id": pid, "reason": NOT_APPLICABLE.get(pid, PENDING_REASON)})
    manifest = {
        "version": 1,
        "setup_cmd": "cd /verif/sim && CARGO_NET_OFFLINE=true cargo build --release --offline && ./target/release/sim selftest --n 8",
        "hooks": {
            "guard": "bmwill_anemo_verif",
            "enable": "RUSTFLAGS='--cfg bmwill_anemo_verif --cfg tokio_unstable' (set in /verif/sim/.cargo/config.toml; the simulator crate path-depends on /repo/crates/anemo and /repo/crates/anemo-tower, so every check rebuilds from /repo's working tree)",
            "baseline_off_cmd": "cd /repo && cargo test --workspace --no-fail-fast --offline",
            "source_commits": [l.split()[0] for l in HOOK_COMMITS][::-1],
            "add_only": True,
        },
        "engines": [
            {"name": "netsim", "path": "/verif/sim", "serves_properties": [c["property_id"] for c in checks if c["engine"] == "netsim"],
             "kind_free_text": "deterministic simulation: real anemo Networks + real quinn/rustls on an in-memory datagram fabric, tokio paused clock, seeded faults, replay + minimisation"},
            {"name": "streamsim", "path": "/verif/sim", "serves_properties": [c["property_id"] for c in checks if c["engine"] == "streamsim"],
             "kind_free_text": "wire codecs over a simulated byte stream with short reads/writes, EOF and I/O errors at every offset"},
        ],
        "checks": checks,
        "not_applicable": na,
        "notes": "Exit codes: 0 held, 1 violation (VIOLATION property=<id> replay=<path>), 2 harness error. VERIF_SEED selects the base seed (default 1); run i uses splitmix(base, i). Known findings: /verif/known_findings.txt.",
    }
    json.dump(manifest, open("/verif/MANIFEST.json", "w"), indent=1)
    print("claimed:", [c["property_id"] for c in checks])

main()
