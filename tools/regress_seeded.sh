#!/bin/sh
# usage: tools/regress_seeded.sh [id-glob]   re-evaluates every stored seeded change (seeded/<id>/patch.diff)
# against the quick checks of its property and of the properties named in its meta.json "detected_by",
# on the private copy eval_isolated.sh uses. Prints one line per change: "<id> CAUGHT by <ids>" / "<id> MISSED" /
# "<id> NOAPPLY". Development helper.
cd /verif || exit 2
for d in seeded/${1:-C*}/; do
  id=$(basename "$d")
  [ -f "$d/patch.diff" ] || continue
  ids=$(python3 - "$d/meta.json" <<'P'
import json,sys,re
m=json.load(open(sys.argv[1]))
ids=[m['property']]
for s in m.get('detected_by',[]):
    for x in re.findall(r'\bc(\d\d)-', s):
        i='C'+x
        if i not in ids: ids.append(i)
print(' '.join(ids))
P
)
  out=$(tools/eval_isolated.sh "/verif/$d/patch.diff" $ids 2>&1)
  if echo "$out" | grep -q "patch does not apply"; then echo "$id NOAPPLY"; continue; fi
  if echo "$out" | grep -q "BUILD FAILED"; then echo "$id BUILDFAIL"; continue; fi
  if ! echo "$out" | grep -a -q -E "^\[C[0-9]+\] rc="; then echo "$id ERROR (the evaluation did not run: $(echo "$out" | tail -n 1))"; continue; fi
  caught=$(echo "$out" | grep -a -E "^\[C[0-9]+\] rc=1" | sed -E 's/^\[(C[0-9]+)\].*/\1/' | tr '\n' ' ')
  err=$(echo "$out" | grep -a -E "^\[C[0-9]+\] rc=2" | sed -E 's/^\[(C[0-9]+)\].*/\1/' | tr '\n' ' ')
  if [ -n "$caught" ]; then echo "$id CAUGHT by $caught${err:+(harness error: $err)}"; else echo "$id MISSED (ran: $ids)${err:+ harness error: $err}"; fi
done
