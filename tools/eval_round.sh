#!/bin/sh
# usage: [EVAL_SLOT=n] tools/eval_round.sh <suffix> ID...
SUF=$1; shift
for id in "$@"; do
  for m in 1 2 3; do
    P=/tmp/wt-$id-$SUF/MUTANT$m/patch.diff
    [ -f $P ] || continue
    echo "=== $id MUTANT$m"
    extra=""
    case $id in C01) extra="C03";; C03) extra="C01";; C07) extra="C06 C02";; C10) extra="C13";; C11) extra="C02";; C14) extra="C01";; C15) extra="C02";; C18) extra="C12";; C02) extra="C15 C11";; C04) extra="C05 C09";; C05) extra="C04 C09";; C06) extra="C02 C12";; C08) extra="C04 C09";; C09) extra="C04 C08";; C12) extra="C02 C18";; C13) extra="C10";; esac
    /verif/tools/eval_isolated.sh $P $id $extra
  done
done
