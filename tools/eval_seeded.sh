#!/bin/sh
# usage: tools/eval_seeded.sh <patch.diff> <ID> [more IDs...]
# Applies a seeded change to /repo, runs the quick checks of the given properties, reverts.
P="$1"; shift
cd /repo || exit 2
if ! git apply --check "$P" 2>/dev/null; then echo "patch does not apply"; exit 2; fi
git apply "$P"
mkdir -p /tmp/seeded-eval && cp /verif/known_findings.txt /tmp/seeded-eval/
git diff --stat | tail -1
for id in "$@"; do
  out=$(cd /verif && VERIF_DIR_OVERRIDE=/tmp/seeded-eval ./check "$id" quick 2>&1); rc=$?
  echo "[$id] rc=$rc"; echo "$out" | grep -a -E "scenario=|^VIOLATION|KNOWN|HARNESS|HANG|^runs=" | cut -c1-300
done
git -C /repo checkout -- .
cd /verif/sim && cargo build --release --offline >/dev/null 2>&1
