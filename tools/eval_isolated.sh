#!/bin/sh
# usage: tools/eval_isolated.sh <patch.diff> <ID> [more IDs...]
# Like eval_seeded.sh, but on a private copy: a scratch worktree of /repo's HEAD (/tmp/eval-repo) and a
# copy of the simulator crate as committed in /verif's HEAD (/tmp/eval-sim, path dependencies redirected), so that /repo and
# /verif/sim stay untouched and usable meanwhile. Development helper; registered checks never use it.
P="$1"; shift
[ -d /tmp/eval-repo ] || git -C /repo worktree add --detach /tmp/eval-repo HEAD >/dev/null 2>&1 || exit 2
git -C /tmp/eval-repo checkout -q --detach "$(git -C /repo rev-parse HEAD)" 2>/dev/null
git -C /tmp/eval-repo checkout -- . 
mkdir -p /tmp/eval-sim /tmp/seeded-eval
# the simulator as *committed* (edits in progress in /verif/sim do not disturb an evaluation)
rm -rf /tmp/eval-export && mkdir -p /tmp/eval-export && git -C /verif archive HEAD sim | tar -x -C /tmp/eval-export
rsync -a --delete --exclude target /tmp/eval-export/sim/ /tmp/eval-sim/
sed -i 's#/repo/crates#/tmp/eval-repo/crates#g' /tmp/eval-sim/Cargo.toml
cp /verif/known_findings.txt /tmp/seeded-eval/
cd /tmp/eval-repo || exit 2
if ! git apply --check "$P" 2>/dev/null; then echo "patch does not apply"; exit 2; fi
git apply "$P"
git diff --stat | tail -1
cd /tmp/eval-sim
if ! CARGO_NET_OFFLINE=true cargo build --release --offline >build.log 2>&1; then echo "BUILD FAILED"; grep -E "^error" -A8 build.log | head -30; git -C /tmp/eval-repo checkout -- .; exit 2; fi
for id in "$@"; do
  out=$(VERIF_DIR=/tmp/seeded-eval ./target/release/sim check "$id" --tier quick 2>&1); rc=$?
  echo "[$id] rc=$rc"; echo "$out" | grep -a -E "scenario=|^VIOLATION|KNOWN|HARNESS|HANG|^runs=" | cut -c1-300
done
git -C /tmp/eval-repo checkout -- .
