#!/bin/sh
# usage: tools/eval_isolated.sh <patch.diff> <ID> [more IDs...]
# Like eval_seeded.sh, but on a private copy: a scratch worktree of /repo's HEAD ($R) and a
# copy of the simulator crate as committed in /verif's HEAD ($X, path dependencies redirected), so that /repo and
# /verif/sim stay untouched and usable meanwhile. Development helper; registered checks never use it.
P="$1"; shift
# EVAL_SLOT (default 1) selects the private copy, so that two evaluations can run side by side
S="${EVAL_SLOT:-1}"; R=/tmp/eval-repo-$S; X=/tmp/eval-sim-$S; E=/tmp/eval-export-$S; O=/tmp/seeded-eval-$S
[ -d $R ] || git -C /repo worktree add --detach $R HEAD >/dev/null 2>&1 || exit 2
git -C $R checkout -q --detach "$(git -C /repo rev-parse HEAD)" 2>/dev/null
git -C $R checkout -- . 
mkdir -p $X $O
# the simulator as *committed* (edits in progress in /verif/sim do not disturb an evaluation)
rm -rf $E && mkdir -p $E && git -C /verif archive HEAD sim | tar -x -C $E
rsync -a --delete --exclude target $E/sim/ $X/
sed -i "s#/repo/crates#$R/crates#g" $X/Cargo.toml
cp /verif/known_findings.txt $O/
cd $R || exit 2
if ! git apply --check "$P" 2>/dev/null; then echo "patch does not apply"; exit 2; fi
git apply "$P"
# a change that alters the signature of something a cfg-guarded hook wrapper calls compiles with the
# guard off (as its author checked) but not with it on: an adapter for the wrapper may sit next to it
A="$(dirname "$P")/hooks_adapter.diff"
[ -f "$A" ] && { git apply "$A" && echo "(hook wrapper adapter applied)"; }
git diff --stat | tail -1
cd $X
if ! CARGO_NET_OFFLINE=true cargo build --release --offline >build.log 2>&1; then echo "BUILD FAILED"; grep -E "^error" -A8 build.log | head -30; git -C $R checkout -- .; exit 2; fi
for id in "$@"; do
  out=$(VERIF_DIR=$O ./target/release/sim check "$id" --tier quick 2>&1); rc=$?
  case "$id" in C10|C18|C19|C20)
    # second engine (layers under real threads, Miri), on a private copy as well
    M=/tmp/eval-miri-$S; mkdir -p $M
    rm -rf $E/miri && git -C /verif archive HEAD miri | tar -x -C $E
    rsync -a --delete --exclude target $E/miri/ $M/
    sed -i "s#/repo/crates#$R/crates#g; s#\.\./sim/vendor/governor#/verif/sim/vendor/governor#" $M/Cargo.toml
    out2=$(VERIF_DIR=$O python3 $M/run.py check "$id" quick 2>&1); rc2=$?
    out="$out
$out2"
    if [ $rc -ne 1 ] && [ $rc2 -ne 0 ]; then rc=$rc2; fi ;;
  esac
  echo "[$id] rc=$rc"; echo "$out" | grep -a -E "scenario=|^VIOLATION|KNOWN|HARNESS|HANG|^runs=|threads-engine" | cut -c1-300
done
git -C $R checkout -- .
