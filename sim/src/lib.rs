//! Deterministic simulation of anemo networks. See /verif/DESIGN.md.

pub mod choice;
pub mod fabric;
pub mod runner;
pub mod scen;
pub mod world;
