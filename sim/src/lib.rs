//! Deterministic simulation of anemo networks. See /verif/DESIGN.md.

pub mod choice;
pub mod adversary;
pub mod fabric;
pub mod model;
pub mod runner;
pub mod scen;
pub mod world;
pub mod vclock;
