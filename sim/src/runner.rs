//! Batch runner: seeded search over runs, watchdog, minimisation, replay files, known findings,
//! evidence.

use crate::choice::run_seed;
use crate::fabric::{FaultKey, FaultMode};
use crate::world::{RunInput, RunOutput, Tier, Violation};
use serde_json::{json, Value};
use std::cell::RefCell;
use std::collections::{BTreeMap, BTreeSet, HashSet};
use std::future::Future;
use std::pin::Pin;
use std::sync::atomic::{AtomicBool, AtomicU64, Ordering};
use std::sync::{Arc, Mutex};
use std::time::{Duration, Instant};

pub type ScenFuture = Pin<Box<dyn Future<Output = RunOutput>>>;

pub struct Scenario {
    pub id: &'static str,
    /// Sub-scenario name (a property may be decided by several engines).
    pub name: &'static str,
    pub run: fn(RunInput) -> ScenFuture,
    pub quick_runs: u64,
    pub thorough_runs: u64,
    /// Measure of distinct interleavings / cases, for the evidence `rule` field.
    pub rule: &'static str,
    pub real: &'static [&'static str],
    pub stubbed: &'static [&'static str],
}

thread_local! {
    static EVENT_INTERVAL: std::cell::Cell<u32> = const { std::cell::Cell::new(61) };
    /// deliberate application-handler panics seen in the current run
    static DELIBERATE: std::cell::Cell<u32> = const { std::cell::Cell::new(0) };
    /// the run this thread is executing (for the crash oracle)
    static CURRENT: RefCell<Option<(&'static Scenario, RunInput)>> = const { RefCell::new(None) };
    static PANICS: RefCell<Vec<String>> = const { RefCell::new(Vec::new()) };
    static AFTER_TEARDOWN: RefCell<Vec<Box<dyn FnOnce()>>> = const { RefCell::new(Vec::new()) };
    /// a violation found by work that runs after the runtime of the run has been dropped
    static LATE_VIOLATION: RefCell<Option<Violation>> = const { RefCell::new(None) };
}

/// How many deliberate application-handler panics (world::DELIBERATE_PANIC) this run has seen so far.
pub fn deliberate_panics() -> u32 {
    DELIBERATE.with(|d| d.get())
}

/// Register work (and values to keep alive) for after the runtime of this run has been dropped:
/// "tearing down the runtime with handles still alive".
pub fn after_runtime_teardown(f: Box<dyn FnOnce()>) {
    AFTER_TEARDOWN.with(|a| a.borrow_mut().push(f));
}

/// Report a violation from a closure registered with [`after_runtime_teardown`] (the run's own
/// verdict has been collected by then).
pub fn late_violation(class: &str, key: &str, msg: String) {
    LATE_VIOLATION.with(|l| {
        let mut l = l.borrow_mut();
        if l.is_none() {
            *l = Some(Violation { class: class.into(), key: key.into(), msg });
        }
    });
}

pub fn install_panic_hook() {
    std::panic::set_hook(Box::new(|info| {
        let msg = format!("{info}");
        // the one panic a scenario raises on purpose: the application's own handler panicking on a
        // request (world::DELIBERATE_PANIC). anemo propagates it - the connection manager unwraps the
        // JoinError of the connection's handler - and the node goes down; that consequence is not
        // a finding either. Everything else is.
        if msg.contains(crate::world::DELIBERATE_PANIC) {
            DELIBERATE.with(|d| d.set(d.get() + 1));
            return;
        }
        if DELIBERATE.with(|d| d.get()) > 0 && msg.contains("JoinError::Panic") {
            return;
        }
        PANICS.with(|p| p.borrow_mut().push(msg));
    }));
    install_crash_oracle();
}

// ---------------------------------------------------------------------------------------------
// crash oracle: the process dying inside a run (abort after a failed allocation, stack overflow,
// an `abort()` in a dependency) is a violation of every "never panics / never takes the process
// down" clause and must come out as a VIOLATION with a replay file, not as a dead checker.
// ---------------------------------------------------------------------------------------------

static CRASH_DIR: Mutex<Option<String>> = Mutex::new(None);
static CRASH_REPLAYING: Mutex<Option<String>> = Mutex::new(None);
static CRASH_ONCE: AtomicBool = AtomicBool::new(false);

pub fn set_crash_dir(dir: &str) {
    *CRASH_DIR.lock().unwrap() = Some(dir.to_string());
}

extern "C" fn on_fatal_signal(sig: libc::c_int) {
    // The process is lost either way; the handler runs on the thread that died, on the alternate
    // stack std gives every thread. Best effort, not strictly async-signal-safe.
    if CRASH_ONCE.swap(true, Ordering::SeqCst) {
        // another thread is already reporting: let it finish
        unsafe {
            libc::sleep(10);
            libc::_exit(1)
        }
    }
    let what = match sig {
        libc::SIGABRT => "abort",
        libc::SIGSEGV => "segmentation-fault-or-stack-overflow",
        libc::SIGBUS => "bus-error",
        libc::SIGILL => "illegal-instruction",
        _ => "fatal-signal",
    };
    let mut code = 2;
    let _ = CURRENT.try_with(|c| {
        if let Ok(cur) = c.try_borrow() {
            if let Some((scen, input)) = cur.as_ref() {
                let v = Violation {
                    class: "process-killed".into(),
                    key: what.into(),
                    msg: format!("the process was killed ({what}) inside run index {} seed {} of scenario {} - failed allocation, stack overflow or abort() in the code under test", input.index, input.seed, scen.name),
                };
                let replaying = CRASH_REPLAYING.try_lock().ok().and_then(|g| g.clone());
                let path = match replaying {
                    Some(p) => {
                        println!("replay: reproduced [{}] {}", v.class, v.msg);
                        p
                    }
                    None => {
                        let dir = CRASH_DIR.try_lock().ok().and_then(|g| g.clone()).unwrap_or_else(|| "/verif".into());
                        let p = write_replay(&dir, scen, input.tier, input.seed, input, &v, None);
                        println!("scenario={} run={} seed={} class={} key={} (not minimised: the process died): {}", scen.name, input.index, input.seed, v.class, v.key, v.msg);
                        let ev = json!({
                            "property_id": scen.id, "tier": input.tier.as_str(), "seed": input.seed, "level": level_of(scen.id),
                            "wall_s": 0.0, "violations": 1,
                            "coverage": {"evaluations": 1, "distinct_nontrivial": 2, "rule": "batch abandoned: the process was killed inside a run; counts not collected", "samples": [v.msg.clone()]},
                        });
                        let _ = std::fs::create_dir_all(format!("{dir}/evidence"));
                        let _ = std::fs::write(format!("{dir}/evidence/{}.json", scen.id), serde_json::to_string_pretty(&ev).unwrap());
                        p
                    }
                };
                println!("VIOLATION property={} replay={}", scen.id, path);
                code = 1;
            }
        }
    });
    use std::io::Write;
    let _ = std::io::stdout().flush();
    unsafe { libc::_exit(code) }
}

fn install_crash_oracle() {
    unsafe {
        for sig in [libc::SIGABRT, libc::SIGSEGV, libc::SIGBUS, libc::SIGILL] {
            let mut sa: libc::sigaction = std::mem::zeroed();
            sa.sa_sigaction = on_fatal_signal as usize;
            sa.sa_flags = libc::SA_ONSTACK | libc::SA_NODEFER;
            libc::sigemptyset(&mut sa.sa_mask);
            libc::sigaction(sig, &sa, std::ptr::null_mut());
        }
    }
}

pub fn take_panics() -> Vec<String> {
    PANICS.with(|p| std::mem::take(&mut *p.borrow_mut()))
}

pub fn peek_panics() -> usize {
    PANICS.with(|p| p.borrow().len())
}

/// Execute one simulated run on the current thread: fresh single-threaded runtime with a paused
/// (virtual) clock and seeded `select!` order; runtime dropped afterwards.
pub fn execute(scen: &'static Scenario, input: RunInput) -> RunOutput {
    let seed = input.seed;
    take_panics();
    CURRENT.with(|c| *c.borrow_mut() = Some((scen, input.clone())));
    AFTER_TEARDOWN.with(|a| a.borrow_mut().clear());
    LATE_VIOLATION.with(|l| *l.borrow_mut() = None);
    DELIBERATE.with(|d| d.set(0));
    anemo::verif::set_active(true);
    // (a run that ended early may have left its scheduling-point hook installed)
    anemo::verif::set_sched_hook(None);
    tokio::runtime::sim_sched::clear_holds();
    crate::vclock::activate();
    let sched = SchedMode::for_run(&input);
    let reorderings = std::rc::Rc::new(std::cell::Cell::new(0u64));
    let sched_sig = std::rc::Rc::new(std::cell::Cell::new(0u64));
    let sched_devs: std::rc::Rc<RefCell<Vec<(u64, u64)>>> = Default::default();
    let mut builder = tokio::runtime::Builder::new_current_thread();
    builder
        .enable_time()
        .start_paused(true)
        .rng_seed(tokio::runtime::RngSeed::from_bytes(&seed.to_le_bytes()));
    sched.install(seed, &mut builder, reorderings.clone(), sched_sig.clone(), sched_devs.clone(), input.sched_explicit.clone());
    let rt = builder.build().unwrap();
    let run = scen.run;
    let result = std::panic::catch_unwind(std::panic::AssertUnwindSafe(|| {
        rt.block_on(async move {
            // cap on simulated time per run: a scenario that never finishes (in virtual time) is a
            // harness error, not a verdict
            match tokio::time::timeout(Duration::from_secs(6 * 3600), run(input)).await {
                Ok(out) => out,
                Err(_) => {
                    let mut out = RunOutput::default();
                    out.harness_error = Some(format!("scenario {} exceeded the simulated-time cap of 6 h (seed {seed})", scen.name));
                    out
                }
            }
        })
    }));
    let dropped = std::panic::catch_unwind(std::panic::AssertUnwindSafe(move || {
        drop(rt);
        let after: Vec<Box<dyn FnOnce()>> = AFTER_TEARDOWN.with(|a| std::mem::take(&mut *a.borrow_mut()));
        for f in after {
            f();
        }
    }));
    tokio::runtime::sim_sched::set_picker(None);
    anemo::verif::set_active(false);
    crate::vclock::deactivate();
    CURRENT.with(|c| *c.borrow_mut() = None);
    let panics = take_panics();
    let mut out = match result {
        Ok(out) => out,
        Err(_) => {
            let mut out = RunOutput::default();
            out.violation = Some(Violation {
                class: "panic-escaped-run".into(),
                key: panic_key(panics.first().map(|s| s.as_str()).unwrap_or("")),
                msg: format!("the simulation's main task panicked: {:?}", panics.first()),
            });
            out
        }
    };
    if let Some(v) = LATE_VIOLATION.with(|l| l.borrow_mut().take()) {
        if out.violation.is_none() {
            out.violation = Some(v);
        }
    }
    if dropped.is_err() && out.violation.is_none() {
        out.violation = Some(Violation {
            class: "panic-in-runtime-teardown".into(),
            key: panic_key(panics.last().map(|s| s.as_str()).unwrap_or("")),
            msg: format!("dropping the runtime panicked: {:?}", panics.last()),
        });
    }
    // No harness task ever panics on purpose: any panic observed on this thread during the run
    // happened inside the code under test (anemo re-raises request-task panics up to the
    // connection manager, so each is a network kill switch). It takes precedence over its
    // consequences.
    if let Some(first) = panics.first() {
        let already = out.violation.as_ref().map(|v| v.class.starts_with("panic")).unwrap_or(false);
        if !already {
            out.violation = Some(Violation {
                class: "panic".into(),
                key: panic_key(first),
                msg: format!("{} panic(s) during the run; first: {}", panics.len(), first.lines().take(3).collect::<Vec<_>>().join(" | ")),
            });
        }
    }
    out.panics = panics;
    // the schedule mode is a run parameter like any other: reported, and shrunk towards FIFO
    if !out.params.iter().any(|p| p.0 == "sched") {
        out.params.push(("sched".into(), sched as i64, 0, 3));
        // (informational, fixed by the mode and the seed: task polls between two turns of the
        // timer driver and of the scenario's main future)
        let ei = if sched == SchedMode::Fifo { 61 } else { EVENT_INTERVAL.with(|e| e.get()) as i64 };
        out.params.push(("sched_event_interval".into(), ei, ei, ei));
    }
    *out.counts.entry(format!("sched_mode_{}", sched.name())).or_default() += 1;
    *out.counts.entry("sched_reordered_polls".into()).or_default() += reorderings.get();
    if reorderings.get() > 0 {
        out.nontrivial = true;
    }
    out.sched_sig = sched_sig.get();
    out.sched_devs = std::mem::take(&mut *sched_devs.borrow_mut());
    out
}

// ---------------------------------------------------------------------------------------------
// task scheduling (seam: tokio::runtime::sim_sched in the vendored tokio)
// ---------------------------------------------------------------------------------------------

/// How the runnable tasks of a run are ordered. Every mode is a legal schedule of the
/// multi-threaded runtime anemo is used with; FIFO is what tokio's current-thread scheduler does.
#[derive(Clone, Copy, Debug, PartialEq, Eq)]
pub enum SchedMode {
    Fifo = 0,
    /// FIFO with an occasional out-of-order pick (a task preempted / stolen now and then)
    RareSwap = 1,
    /// most recently woken task first most of the time (the LIFO slot of the multi-threaded scheduler)
    Lifo = 2,
    /// uniformly random among the runnable tasks
    Random = 3,
}

impl SchedMode {
    pub fn name(self) -> &'static str {
        match self {
            SchedMode::Fifo => "fifo",
            SchedMode::RareSwap => "rare-swap",
            SchedMode::Lifo => "lifo",
            SchedMode::Random => "random",
        }
    }
    fn from_i64(v: i64) -> Self {
        match v {
            1 => SchedMode::RareSwap,
            2 => SchedMode::Lifo,
            3 => SchedMode::Random,
            _ => SchedMode::Fifo,
        }
    }
    pub fn for_run(input: &RunInput) -> Self {
        use rand::Rng;
        if let Some(v) = input.overrides.get("sched") {
            return Self::from_i64(*v);
        }
        let x: f64 = crate::choice::Choice::new(input.seed).stream("cfg:sched").gen();
        if x < 0.40 {
            SchedMode::Fifo
        } else if x < 0.65 {
            SchedMode::RareSwap
        } else if x < 0.80 {
            SchedMode::Lifo
        } else {
            SchedMode::Random
        }
    }
    #[allow(clippy::too_many_arguments)]
    fn install(
        self,
        seed: u64,
        builder: &mut tokio::runtime::Builder,
        reorderings: std::rc::Rc<std::cell::Cell<u64>>,
        sig: std::rc::Rc<std::cell::Cell<u64>>,
        devs: std::rc::Rc<RefCell<Vec<(u64, u64)>>>,
        explicit: Option<BTreeMap<u64, u64>>,
    ) {
        use rand::Rng;
        if self == SchedMode::Fifo {
            tokio::runtime::sim_sched::set_picker(None);
            return;
        }
        let mut rng = crate::choice::Choice::new(seed).stream("sched");
        // how many tasks run between two visits of the timer driver / the main future
        let ei = [1u32, 2, 3, 5, 8, 13, 31, 61][rng.gen_range(0..8)];
        builder.event_interval(ei);
        EVENT_INTERVAL.with(|e| e.set(ei));
        let p_swap = [1.0 / 64.0, 1.0 / 16.0, 1.0 / 4.0][rng.gen_range(0..3)];
        tokio::runtime::sim_sched::set_picker(Some(Box::new(SeededPicker { mode: self, rng, p_swap, reorderings, sig, decisions: 0, devs, explicit })));
    }
}

struct SeededPicker {
    mode: SchedMode,
    rng: rand::rngs::StdRng,
    p_swap: f64,
    reorderings: std::rc::Rc<std::cell::Cell<u64>>,
    /// running hash over (decision index, queue length, choice) of every out-of-order decision
    sig: std::rc::Rc<std::cell::Cell<u64>>,
    decisions: u64,
    /// every deviation from FIFO made in this run: (decision index, choice)
    devs: std::rc::Rc<RefCell<Vec<(u64, u64)>>>,
    /// explicit schedule: the only deviations to make (decision index -> choice)
    explicit: Option<BTreeMap<u64, u64>>,
}

impl SeededPicker {
    fn note(&mut self, len: usize, k: usize) {
        self.decisions += 1;
        if k != 0 {
            self.devs.borrow_mut().push((self.decisions, k as u64));
            self.reorderings.set(self.reorderings.get() + 1);
            let mut h = crate::choice::RunHash(self.sig.get() ^ 0xcbf2_9ce4_8422_2325);
            h.push_u64(self.decisions);
            h.push_u64(((len as u64) << 32) | k as u64);
            self.sig.set(h.0);
        }
    }
}

impl tokio::runtime::sim_sched::Picker for SeededPicker {
    fn pick(&mut self, len: usize) -> usize {
        use rand::Rng;
        if let Some(map) = &self.explicit {
            let k = map.get(&(self.decisions + 1)).map(|k| (*k as usize).min(len - 1)).unwrap_or(0);
            self.note(len, k);
            return k;
        }
        let k = match self.mode {
            SchedMode::Fifo => 0,
            SchedMode::RareSwap => {
                if self.rng.gen_bool(self.p_swap) {
                    self.rng.gen_range(0..len)
                } else {
                    0
                }
            }
            SchedMode::Lifo => {
                if self.rng.gen_bool(0.75) {
                    len - 1
                } else {
                    0
                }
            }
            SchedMode::Random => self.rng.gen_range(0..len),
        };
        self.note(len, k);
        k
    }
    fn defer_main(&mut self, _queued: usize) -> bool {
        use rand::Rng;
        if let Some(map) = &self.explicit {
            let d = map.get(&(self.decisions + 1)).map(|k| *k != 0).unwrap_or(false);
            self.note(usize::MAX >> 33, d as usize);
            return d;
        }
        let d = match self.mode {
            SchedMode::Fifo => false,
            SchedMode::RareSwap => self.rng.gen_bool(self.p_swap),
            SchedMode::Lifo => self.rng.gen_bool(0.25),
            SchedMode::Random => self.rng.gen_bool(0.5),
        };
        self.note(usize::MAX >> 33, d as usize);
        d
    }
}

/// Location part of a panic message (`panicked at file:line:col`), used as identifying key.
pub fn panic_key(msg: &str) -> String {
    let first = msg.lines().next().unwrap_or("");
    let loc = first.strip_prefix("panicked at ").unwrap_or(first);
    let loc = loc.trim_end_matches(':');
    // strip registry prefix and column
    let loc = loc.rsplit("/src/").next().map(|s| format!("src/{s}")).unwrap_or_else(|| loc.to_string());
    let mut parts: Vec<&str> = loc.split(':').collect();
    if parts.len() >= 3 {
        parts.truncate(2);
    }
    parts.join(":")
}

// ---------------------------------------------------------------------------------------------
// known findings
// ---------------------------------------------------------------------------------------------

#[derive(Clone, Debug)]
pub struct KnownFinding {
    pub property: String,
    pub class: String,
    pub key: String,
    pub text: String,
}

pub fn load_known_findings(path: &str) -> Vec<KnownFinding> {
    let mut out = Vec::new();
    let Ok(s) = std::fs::read_to_string(path) else {
        return out;
    };
    for line in s.lines() {
        let line = line.trim();
        // finding: property=C15 class=<class> key=<key> :: <description>
        let Some(rest) = line.strip_prefix("finding:") else {
            continue;
        };
        let (head, text) = rest.split_once("::").unwrap_or((rest, ""));
        let mut kf = KnownFinding {
            property: String::new(),
            class: String::new(),
            key: String::new(),
            text: text.trim().to_string(),
        };
        for tok in head.split_whitespace() {
            if let Some(v) = tok.strip_prefix("property=") {
                kf.property = v.into();
            } else if let Some(v) = tok.strip_prefix("class=") {
                kf.class = v.into();
            } else if let Some(v) = tok.strip_prefix("key=") {
                kf.key = v.into();
            }
        }
        out.push(kf);
    }
    out
}

fn matches_known<'a>(known: &'a [KnownFinding], id: &str, v: &Violation) -> Option<&'a KnownFinding> {
    known
        .iter()
        .find(|k| k.property == id && k.class == v.class && k.key == v.key)
}

// ---------------------------------------------------------------------------------------------
// batch
// ---------------------------------------------------------------------------------------------

#[derive(Default)]
struct Agg {
    evaluations: u64,
    sigs: HashSet<u64>,
    nontrivial_sigs: HashSet<u64>,
    sched_sigs: HashSet<u64>,
    counts: BTreeMap<String, u64>,
    probes: BTreeMap<String, u64>,
    sim_ns: u128,
    samples: Vec<Value>,
    violations: Vec<(u64, u64, Violation)>, // (index, seed, violation)
    known_seen: BTreeMap<String, (u64, String)>,
    harness_errors: Vec<(u64, String)>,
    configs: BTreeSet<String>,
}

pub struct BatchResult {
    pub exit: i32,
    pub evidence: Value,
}

pub struct BatchOpts {
    pub tier: Tier,
    pub base_seed: u64,
    pub workers: usize,
    pub runs_override: Option<u64>,
    pub wall_cap: Duration,
    pub verif_dir: String,
}

struct Heartbeat {
    started: Mutex<Option<(Instant, u64, u64)>>, // (when, index, seed)
}

/// The monotonic-clock seam must be in effect (it depends on how the binary was linked): ten
/// virtual seconds must pass on `std::time::Instant` while (almost) no real time does.
pub fn verify_clock_seam() -> Result<(), String> {
    let real0 = std::time::Instant::now();
    crate::vclock::activate();
    let rt = tokio::runtime::Builder::new_current_thread().enable_time().start_paused(true).build().unwrap();
    let a = std::time::Instant::now();
    rt.block_on(async { tokio::time::sleep(Duration::from_secs(10)).await });
    let virt = a.elapsed();
    drop(rt);
    crate::vclock::deactivate();
    let real = real0.elapsed();
    if virt != Duration::from_secs(10) && virt != Duration::from_millis(10_001) {
        return Err(format!("std::time::Instant does not follow simulated time: 10 s of simulated sleep measured as {virt:?}"));
    }
    if real > Duration::from_secs(5) {
        return Err(format!("the real clock is not readable outside runs: measured {real:?}"));
    }
    Ok(())
}

pub fn run_batch(scens: &[&'static Scenario], opts: &BatchOpts) -> BatchResult {
    install_panic_hook();
    if let Err(e) = verify_clock_seam() {
        eprintln!("HARNESS ERROR: {e}");
        std::process::exit(2);
    }
    set_crash_dir(&opts.verif_dir);
    let id = scens[0].id;
    let known = load_known_findings(&format!("{}/known_findings.txt", opts.verif_dir));
    let t_start = Instant::now();
    let mut agg_total = Agg::default();
    let mut per_scen: Vec<Value> = Vec::new();
    let mut exit = 0;
    let mut violation_lines: Vec<String> = Vec::new();

    for scen in scens {
        let runs = opts.runs_override.unwrap_or(match opts.tier {
            Tier::Quick => scen.quick_runs,
            Tier::Thorough => scen.thorough_runs,
        });
        let agg = Mutex::new(Agg::default());
        let next = AtomicU64::new(0);
        let stop = AtomicBool::new(false);
        let hearts: Vec<Heartbeat> = (0..opts.workers).map(|_| Heartbeat { started: Mutex::new(None) }).collect();
        let done_workers = AtomicU64::new(0);
        let t_scen = Instant::now();
        let hang: Mutex<Option<(u64, u64)>> = Mutex::new(None);

        std::thread::scope(|s| {
            for w in 0..opts.workers {
                let agg = &agg;
                let next = &next;
                let stop = &stop;
                let heart = &hearts[w];
                let done_workers = &done_workers;
                let known = &known;
                std::thread::Builder::new()
                    .stack_size(16 << 20)
                    .spawn_scoped(s, move || {
                        loop {
                            if stop.load(Ordering::SeqCst) || t_scen.elapsed() > opts.wall_cap {
                                break;
                            }
                            let i = next.fetch_add(1, Ordering::SeqCst);
                            if i >= runs {
                                break;
                            }
                            let seed = run_seed(opts.base_seed, i);
                            *heart.started.lock().unwrap() = Some((Instant::now(), i, seed));
                            let mut input = RunInput::new(seed, opts.tier);
                            input.index = i;
                            let out = execute(scen, input);
                            *heart.started.lock().unwrap() = None;
                            let mut a = agg.lock().unwrap();
                            a.evaluations += 1;
                            a.sigs.insert(out.sig);
                            if out.sched_sig != 0 {
                                a.sched_sigs.insert(out.sched_sig);
                            }
                            if out.nontrivial {
                                a.nontrivial_sigs.insert(out.sig);
                            }
                            for (k, v) in &out.counts {
                                *a.counts.entry(k.clone()).or_default() += v;
                            }
                            for (k, v) in &out.probes {
                                *a.probes.entry(k.clone()).or_default() += v;
                            }
                            a.sim_ns += out.sim_ns as u128;
                            if a.configs.len() < 100_000 {
                                let cfg: Vec<String> = out.params.iter().map(|p| format!("{}={}", p.0, p.1)).collect();
                                a.configs.insert(cfg.join(","));
                            }
                            if i < 3 {
                                a.samples.push(out.sample.clone());
                            }
                            if let Some(e) = out.harness_error {
                                a.harness_errors.push((seed, e));
                                stop.store(true, Ordering::SeqCst);
                            }
                            if let Some(v) = out.violation {
                                if let Some(k) = matches_known(known, scen.id, &v) {
                                    let e = a
                                        .known_seen
                                        .entry(format!("{} {}", k.class, k.key))
                                        .or_insert((0, k.text.clone()));
                                    e.0 += 1;
                                } else {
                                    a.violations.push((i, seed, v));
                                    stop.store(true, Ordering::SeqCst);
                                }
                            }
                        }
                        done_workers.fetch_add(1, Ordering::SeqCst);
                    })
                    .unwrap();
            }
            // watchdog: the only real clock in a verdict path, and only for "the simulation
            // thread itself is stuck" (virtual time cannot see a busy loop).
            s.spawn(|| {
              // Hang = the same run observed in progress on 5 * threshold-seconds consecutive
              // 200 ms ticks of this watchdog *and* for longer than the threshold. Counting ticks
              // (not only elapsed wall time) keeps a paused VM or a long scheduling stall from
              // being mistaken for a busy loop of the simulation thread.
              let mut seen: Vec<(u64, u64)> = vec![(u64::MAX, 0); hearts.len()];
              loop {
                std::thread::sleep(Duration::from_millis(200));
                if done_workers.load(Ordering::SeqCst) as usize == opts.workers {
                    break;
                }
                for (wi, h) in hearts.iter().enumerate() {
                    match *h.started.lock().unwrap() {
                        Some((when, i, seed)) => {
                            if seen[wi].0 == i {
                                seen[wi].1 += 1;
                            } else {
                                seen[wi] = (i, 1);
                            }
                            if when.elapsed() > hang_threshold() && seen[wi].1 >= 5 * hang_threshold().as_secs() - 5 {
                                *hang.lock().unwrap() = Some((i, seed));
                            }
                        }
                        None => seen[wi] = (u64::MAX, 0),
                    }
                }
                if let Some((i, seed)) = *hang.lock().unwrap() {
                    // A stuck simulation thread cannot be cancelled: report and leave.
                    let v = Violation {
                        class: "hang".into(),
                        key: scen.name.into(),
                        msg: format!("simulation thread made no progress for {:?} of real time", hang_threshold()),
                    };
                    let path = write_replay(&opts.verif_dir, scen, opts.tier, seed, &RunInput::new(seed, opts.tier), &v, None);
                    if let Some(k) = matches_known(&known, scen.id, &v) {
                        println!("KNOWN-FINDING: property={} {} (hang at run {i}, seed {seed}; batch abandoned)", scen.id, k.text);
                        write_minimal_evidence(opts, scen, t_start, 0);
                        std::process::exit(0);
                    }
                    if std::env::var("VERIF_HANG_PAUSE").is_ok() {
                        // debugging aid: leave the stuck process around for a debugger
                        eprintln!("HANG detected in pid {}; pausing", std::process::id());
                        std::thread::sleep(Duration::from_secs(600));
                    }
                    println!("run {i} seed {seed}: HANG in scenario {}", scen.name);
                    println!("VIOLATION property={} replay={}", scen.id, path);
                    write_minimal_evidence(opts, scen, t_start, 1);
                    std::process::exit(1);
                }
              }
            });
        });

        let mut a = agg.into_inner().unwrap();
        let wall = t_scen.elapsed().as_secs_f64();
        if !a.harness_errors.is_empty() {
            for (seed, e) in &a.harness_errors {
                eprintln!("HARNESS ERROR scenario={} seed={seed}: {e}", scen.name);
            }
            if exit == 0 {
                exit = 2;
            }
        }
        a.violations.sort_by_key(|v| v.0);
        if let Some((i, seed, v)) = a.violations.first().cloned() {
            eprintln!("scenario {}: violation at run {i} seed {seed}: [{}] {}", scen.name, v.class, v.msg);
            let (min_input, min_v, steps) = minimise(scen, opts.tier, seed, i, &v);
            let mut rec = min_input.clone();
            rec.record_log = true;
            let out = execute(scen, rec);
            let path = write_replay(&opts.verif_dir, scen, opts.tier, seed, &min_input, &min_v, Some(&out));
            println!(
                "scenario={} run={i} seed={seed} class={} key={} minimised_in={steps} steps: {}",
                scen.name, min_v.class, min_v.key, min_v.msg
            );
            violation_lines.push(format!("VIOLATION property={} replay={}", scen.id, path));
            // a violation shown against the real code outranks a run the harness could not judge
            exit = 1;
        }
        for (k, (n, text)) in &a.known_seen {
            println!("KNOWN-FINDING: property={} {} [{}; seen in {} runs]", scen.id, text, k, n);
        }
        per_scen.push(json!({
            "scenario": scen.name,
            "runs": a.evaluations,
            "wall_s": wall,
            "runs_per_hour": if wall > 0.0 { (a.evaluations as f64 / wall * 3600.0) as u64 } else { 0 },
            "distinct_signatures": a.sigs.len(),
            "distinct_nontrivial_signatures": a.nontrivial_sigs.len(),
            "distinct_configurations": a.configs.len(),
            "distinct_task_orders": a.sched_sigs.len(),
            "simulated_seconds": (a.sim_ns / 1_000_000_000) as u64,
            "rule": scen.rule,
        }));
        // fold into total
        agg_total.evaluations += a.evaluations;
        for s in a.sigs {
            agg_total.sigs.insert(s ^ crate::choice::fnv(scen.name.as_bytes()));
        }
        for s in a.nontrivial_sigs {
            agg_total.nontrivial_sigs.insert(s ^ crate::choice::fnv(scen.name.as_bytes()));
        }
        for (k, v) in a.counts {
            *agg_total.counts.entry(k).or_default() += v;
        }
        for (k, v) in a.probes {
            *agg_total.probes.entry(k).or_default() += v;
        }
        agg_total.sim_ns += a.sim_ns;
        for s in &a.sched_sigs {
            agg_total.sched_sigs.insert(*s ^ crate::choice::fnv(scen.name.as_bytes()));
        }
        for (i, s) in a.samples.into_iter().enumerate() {
            if i < 2 {
                agg_total.samples.push(json!({"scenario": scen.name, "run": s}));
            }
        }
        agg_total.configs.extend(a.configs.into_iter().map(|c| format!("{}:{c}", scen.name)));
        for (k, v) in a.known_seen {
            agg_total.known_seen.insert(format!("{}:{k}", scen.name), v);
        }
        agg_total.violations.extend(a.violations);
    }

    for l in &violation_lines {
        println!("{l}");
    }

    let wall = t_start.elapsed().as_secs_f64();
    let real: BTreeSet<&str> = scens.iter().flat_map(|s| s.real.iter().copied()).collect();
    let stubbed: BTreeSet<&str> = scens.iter().flat_map(|s| s.stubbed.iter().copied()).collect();
    let rule = scens.iter().map(|s| format!("[{}] {}", s.name, s.rule)).collect::<Vec<_>>().join(" ");
    let evidence = json!({
        "property_id": id,
        "tier": opts.tier.as_str(),
        "seed": opts.base_seed,
        "level": level_of(id),
        "wall_s": wall,
        "violations": agg_total.violations.len(),
        "coverage": {
            "evaluations": agg_total.evaluations,
            "distinct_nontrivial": agg_total.nontrivial_sigs.len(),
            "distinct_signatures": agg_total.sigs.len(),
            "distinct_task_orders": agg_total.sched_sigs.len(),
            "rule": rule,
            "samples": agg_total.samples,
            "runs_per_hour": if wall > 0.0 { (agg_total.evaluations as f64 / wall * 3600.0) as u64 } else { 0 },
            "seeds_per_hour": if wall > 0.0 { (agg_total.evaluations as f64 / wall * 3600.0) as u64 } else { 0 },
            "simulated_seconds": (agg_total.sim_ns / 1_000_000_000) as u64,
            "faults_fired": agg_total.counts,
            "probes": agg_total.probes,
            "configs_covered": agg_total.configs.len(),
            "scenarios": per_scen,
            "components_real": real,
            "components_stubbed": stubbed,
            "known_findings_seen": agg_total.known_seen.iter().map(|(k, v)| json!({"finding": k, "runs": v.0, "text": v.1})).collect::<Vec<_>>(),
            "workers": opts.workers,
            "exhaustive": false,
        },
        "assumptions": assumptions(),
    });
    BatchResult { exit, evidence }
}

pub fn hang_threshold() -> Duration {
    Duration::from_secs(
        std::env::var("VERIF_HANG_SECS")
            .ok()
            .and_then(|s| s.parse().ok())
            .unwrap_or(20),
    )
}

fn write_minimal_evidence(opts: &BatchOpts, scen: &Scenario, t0: Instant, violations: i64) {
    let ev = json!({
        "property_id": scen.id, "tier": opts.tier.as_str(), "seed": opts.base_seed, "level": level_of(scen.id),
        "wall_s": t0.elapsed().as_secs_f64(), "violations": violations,
        "coverage": {"evaluations": 1, "distinct_nontrivial": 2, "rule": "batch abandoned after a hang of the simulation thread; counts not collected", "samples": [format!("hang in scenario {}", scen.name)]},
    });
    let _ = std::fs::create_dir_all(format!("{}/evidence", opts.verif_dir));
    let _ = std::fs::write(format!("{}/evidence/{}.json", opts.verif_dir, scen.id), serde_json::to_string_pretty(&ev).unwrap());
}

pub fn level_of(id: &str) -> &'static str {
    match id {
        "C07" => "fault_enumeration",
        _ => "exploration",
    }
}

fn assumptions() -> Vec<&'static str> {
    vec![
        "sampling, not proof: bounded node counts, run lengths and message sizes",
        "single-threaded execution: interleavings at await-point granularity only",
        "TLS randomness (ring SystemRandom) is real; it changes packet contents only, not counts, order or sizes - except that quinn judges an Initial packet for a connection its endpoint has forgotten by unauthenticated, TLS-random bits (determinism self-test on the final state: 1 run in 3456 takes one of two legal paths; same history and verdict; DESIGN.md 13.5)",
        "quinn, rustls, tokio and the virtual clock behave as in production builds",
    ]
}

// ---------------------------------------------------------------------------------------------
// minimisation
// ---------------------------------------------------------------------------------------------

fn same_class(out: &RunOutput, v: &Violation) -> Option<Violation> {
    out.violation.as_ref().filter(|x| x.class == v.class).cloned()
}

/// Shrink the fault set (ddmin over the faults that fired) and the scenario parameters while the
/// same violation class persists. Hang classes are not minimised (cannot be re-executed safely).
pub fn minimise(scen: &'static Scenario, tier: Tier, seed: u64, index: u64, v: &Violation) -> (RunInput, Violation, usize) {
    let mut best = RunInput::new(seed, tier);
    best.index = index;
    let mut best_v = v.clone();
    let mut steps = 0usize;
    let budget = 300usize;
    if v.class == "hang" {
        return (best, best_v, 0);
    }
    // 0. confirm determinism of the failure
    let base = execute(scen, best.clone());
    steps += 1;
    let Some(bv) = same_class(&base, v) else {
        eprintln!("minimiser: violation did not reproduce on re-execution (class {}), reporting unminimised", v.class);
        return (best, best_v, steps);
    };
    best_v = bv;
    // 1. explicit faults, ddmin
    let mut faults: Vec<FaultKey> = base.fired.clone();
    faults.sort();
    faults.dedup();
    let try_faults = |set: &[FaultKey], cur: &RunInput, steps: &mut usize| -> Option<(RunInput, Violation)> {
        let mut inp = cur.clone();
        inp.faults = FaultMode::Explicit(set.iter().cloned().collect());
        *steps += 1;
        let out = execute(scen, inp.clone());
        same_class(&out, v).map(|vv| (inp, vv))
    };
    if let Some((inp, vv)) = try_faults(&faults, &best, &mut steps) {
        best = inp;
        best_v = vv;
        // try none at all first
        if let Some((inp, vv)) = try_faults(&[], &best, &mut steps) {
            best = inp;
            best_v = vv;
            faults.clear();
        }
        let mut n = 2usize;
        while faults.len() >= 2 && steps < budget {
            let chunk = faults.len().div_ceil(n);
            let mut reduced = false;
            for i in 0..n {
                let lo = i * chunk;
                if lo >= faults.len() {
                    break;
                }
                let hi = (lo + chunk).min(faults.len());
                let complement: Vec<FaultKey> = faults[..lo].iter().chain(faults[hi..].iter()).cloned().collect();
                if let Some((inp, vv)) = try_faults(&complement, &best, &mut steps) {
                    faults = complement;
                    best = inp;
                    best_v = vv;
                    n = (n - 1).max(2);
                    reduced = true;
                    break;
                }
                if steps >= budget {
                    break;
                }
            }
            if !reduced {
                if n >= faults.len() {
                    break;
                }
                n = (n * 2).min(faults.len());
            }
        }
        if faults.len() == 1 && steps < budget {
            if let Some((inp, vv)) = try_faults(&[], &best, &mut steps) {
                best = inp;
                best_v = vv;
            }
        }
    }
    // 1b. the schedule: make the deviations from FIFO explicit and ddmin over them
    if steps < budget {
        let mut rec = best.clone();
        rec.sched_explicit = None;
        steps += 1;
        let cur = execute(scen, rec);
        if same_class(&cur, v).is_some() && !cur.sched_devs.is_empty() {
            let mut devs: Vec<(u64, u64)> = cur.sched_devs.clone();
            let try_sched = |set: &[(u64, u64)], cur: &RunInput, steps: &mut usize| -> Option<(RunInput, Violation)> {
                let mut inp = cur.clone();
                inp.sched_explicit = Some(set.iter().cloned().collect());
                *steps += 1;
                let out = execute(scen, inp.clone());
                same_class(&out, v).map(|vv| (inp, vv))
            };
            if let Some((inp, vv)) = try_sched(&devs, &best, &mut steps) {
                best = inp;
                best_v = vv;
                if let Some((inp, vv)) = try_sched(&[], &best, &mut steps) {
                    best = inp;
                    best_v = vv;
                    devs.clear();
                }
                let mut n = 2usize;
                while devs.len() >= 2 && steps < budget {
                    let chunk = devs.len().div_ceil(n);
                    let mut reduced = false;
                    for i in 0..n {
                        let lo = i * chunk;
                        if lo >= devs.len() {
                            break;
                        }
                        let hi = (lo + chunk).min(devs.len());
                        let complement: Vec<(u64, u64)> = devs[..lo].iter().chain(devs[hi..].iter()).cloned().collect();
                        if let Some((inp, vv)) = try_sched(&complement, &best, &mut steps) {
                            devs = complement;
                            best = inp;
                            best_v = vv;
                            n = (n - 1).max(2);
                            reduced = true;
                            break;
                        }
                        if steps >= budget {
                            break;
                        }
                    }
                    if !reduced {
                        if n >= devs.len() {
                            break;
                        }
                        n = (n * 2).min(devs.len());
                    }
                }
                if devs.len() == 1 && steps < budget {
                    if let Some((inp, vv)) = try_sched(&[], &best, &mut steps) {
                        best = inp;
                        best_v = vv;
                    }
                }
            }
        }
    }
    // 2. parameters towards their lower bound, in recorded order
    let params = base.params.clone();
    for (name, val, lo, _hi) in params {
        if steps >= budget {
            break;
        }
        // the strict/relaxed decision of a scenario must stay consistent with the faults that
        // still fire in explicit mode
        let explicit_faults = matches!(&best.faults, FaultMode::Explicit(s) if !s.is_empty());
        if explicit_faults && (name == "lossy" || name == "faulty") {
            continue;
        }
        // (an explicit schedule belongs to the schedule mode it was recorded under)
        if name == "sched" && best.sched_explicit.as_ref().map(|m| !m.is_empty()).unwrap_or(false) {
            continue;
        }
        let mut cur = *best.overrides.get(&name).unwrap_or(&val);
        let mut candidates = vec![lo];
        let mut c = cur;
        while c - lo > 1 {
            c = lo + (c - lo) / 2;
            candidates.push(c);
        }
        candidates.push(cur - 1);
        candidates.dedup();
        for cand in candidates {
            if cand >= cur || cand < lo || steps >= budget {
                continue;
            }
            let mut inp = best.clone();
            inp.overrides.insert(name.clone(), cand);
            steps += 1;
            let out = execute(scen, inp.clone());
            if let Some(vv) = same_class(&out, v) {
                best = inp;
                best_v = vv;
                cur = cand;
                break;
            }
        }
    }
    (best, best_v, steps)
}

// ---------------------------------------------------------------------------------------------
// replay files
// ---------------------------------------------------------------------------------------------

pub fn write_replay(
    verif_dir: &str,
    scen: &Scenario,
    tier: Tier,
    found_seed: u64,
    input: &RunInput,
    v: &Violation,
    out: Option<&RunOutput>,
) -> String {
    let dir = format!("{verif_dir}/replays");
    let _ = std::fs::create_dir_all(&dir);
    let path = format!("{dir}/{}-{}-{}-{}.json", scen.id, scen.name, found_seed, sanitize(&v.class));
    let (mode, faults) = match &input.faults {
        FaultMode::Prng => ("prng", Vec::new()),
        FaultMode::Explicit(set) => ("explicit", set.iter().cloned().collect::<Vec<_>>()),
    };
    let doc = json!({
        "property": scen.id,
        "scenario": scen.name,
        "seed": input.seed,
        "index": input.index,
        "tier": tier.as_str(),
        "overrides": input.overrides,
        "fault_mode": mode,
        "faults": faults,
        "schedule_mode": if input.sched_explicit.is_some() { "explicit" } else { "seeded" },
        "schedule": input.sched_explicit.as_ref().map(|m| m.iter().map(|(i, k)| json!([i, k])).collect::<Vec<_>>()),
        "class": v.class,
        "key": v.key,
        "message": v.msg,
        "log_hash": out.map(|o| o.log_hash),
        "panics": out.map(|o| o.panics.clone()),
        "params": out.map(|o| o.params.iter().map(|p| (p.0.clone(), p.1)).collect::<BTreeMap<_, _>>()),
        "log": out.map(|o| o.log.clone()),
    });
    std::fs::write(&path, serde_json::to_string_pretty(&doc).unwrap()).unwrap();
    path
}

fn sanitize(s: &str) -> String {
    s.chars().map(|c| if c.is_ascii_alphanumeric() || c == '-' { c } else { '_' }).collect()
}

/// Re-execute a replay file in this (fresh) process. Exit 1 + VIOLATION when it reproduces exactly,
/// exit 2 when it diverges, exit 0 when the violation is gone (e.g. after a repair).
pub fn replay(all: &[&'static Scenario], path: &str) -> i32 {
    install_panic_hook();
    let doc: Value = match std::fs::read_to_string(path).ok().and_then(|s| serde_json::from_str(&s).ok()) {
        Some(d) => d,
        None => {
            eprintln!("cannot read replay file {path}");
            return 2;
        }
    };
    let name = doc["scenario"].as_str().unwrap_or("");
    let Some(scen) = all.iter().copied().find(|s| s.name == name) else {
        eprintln!("unknown scenario {name}");
        return 2;
    };
    let tier = if doc["tier"] == "thorough" { Tier::Thorough } else { Tier::Quick };
    let mut input = RunInput::new(doc["seed"].as_u64().unwrap(), tier);
    input.index = doc["index"].as_u64().unwrap_or(0);
    input.overrides.clear(); // a replay file is self-contained
    if let Some(o) = doc["overrides"].as_object() {
        for (k, v) in o {
            input.overrides.insert(k.clone(), v.as_i64().unwrap());
        }
    }
    if doc["fault_mode"] == "explicit" {
        let set: BTreeSet<FaultKey> = serde_json::from_value(doc["faults"].clone()).unwrap_or_default();
        input.faults = FaultMode::Explicit(set);
    }
    if doc["schedule_mode"] == "explicit" {
        let mut m = BTreeMap::new();
        if let Some(a) = doc["schedule"].as_array() {
            for e in a {
                if let (Some(i), Some(k)) = (e[0].as_u64(), e[1].as_u64()) {
                    m.insert(i, k);
                }
            }
        }
        input.sched_explicit = Some(m);
    }
    input.record_log = true;
    let class = doc["class"].as_str().unwrap_or("").to_string();
    *CRASH_REPLAYING.lock().unwrap() = Some(path.to_string());
    if class == "hang" {
        // run under the watchdog
        let seed = input.seed;
        let (tx, rx) = std::sync::mpsc::channel();
        let scen_ptr: &'static Scenario = scen;
        std::thread::spawn(move || {
            let out = execute(scen_ptr, input);
            let _ = tx.send(out);
        });
        return match rx.recv_timeout(hang_threshold()) {
            Err(_) => {
                println!("replay: simulation thread hung again (seed {seed})");
                println!("VIOLATION property={} replay={}", scen.id, path);
                std::process::exit(1);
            }
            Ok(out) => {
                if let Some(v) = out.violation {
                    println!("replay: no hang, but violation [{}] {}", v.class, v.msg);
                    println!("VIOLATION property={} replay={}", scen.id, path);
                    1
                } else {
                    println!("replay: hang did not reproduce; run completed without violation");
                    0
                }
            }
        };
    }
    let out = execute(scen, input);
    match out.violation {
        Some(v) if v.class == class => {
            let same_hash = doc["log_hash"].as_u64() == Some(out.log_hash);
            println!("replay: reproduced [{}] {} (event-log hash {})", v.class, v.msg, if same_hash { "identical" } else { "DIFFERS" });
            if !same_hash && doc["log_hash"].is_u64() {
                // same violation, but not the identical execution (see DESIGN.md 13.5: the one known
                // source is an endpoint answering a packet of a connection it has already forgotten,
                // which depends on TLS-random packet contents)
                eprintln!("note: same violation class but the event log differs from the recorded one");
            }
            println!("VIOLATION property={} replay={}", scen.id, path);
            1
        }
        Some(v) => {
            println!("replay: different violation [{}] {} (expected class {class})", v.class, v.msg);
            println!("VIOLATION property={} replay={}", scen.id, path);
            1
        }
        None => {
            println!("replay: no violation (expected class {class})");
            0
        }
    }
}

/// Determinism self-test: every seed twice in this process; the caller compares across processes
/// and worker counts by diffing the printed hashes.
pub fn selftest(scens: &[&'static Scenario], n: u64, base_seed: u64, workers: usize, print: bool) -> i32 {
    install_panic_hook();
    let bad = Arc::new(AtomicU64::new(0));
    let lines: Mutex<Vec<(String, u64, u64, u64)>> = Mutex::new(Vec::new());
    for scen in scens {
        let next = AtomicU64::new(0);
        std::thread::scope(|s| {
            for _ in 0..workers {
                let bad = bad.clone();
                let next = &next;
                let lines = &lines;
                std::thread::Builder::new()
                    .stack_size(16 << 20)
                    .spawn_scoped(s, move || loop {
                        let i = next.fetch_add(1, Ordering::SeqCst);
                        if i >= n {
                            break;
                        }
                        let seed = run_seed(base_seed, i);
                        let a = execute(scen, RunInput::new(seed, Tier::Quick));
                        let b = execute(scen, RunInput::new(seed, Tier::Quick));
                        if a.log_hash != b.log_hash || a.sig != b.sig {
                            bad.fetch_add(1, Ordering::SeqCst);
                            eprintln!("DIVERGED scenario={} seed={seed}: {:x}/{:x} vs {:x}/{:x}", scen.name, a.log_hash, a.sig, b.log_hash, b.sig);
                        }
                        lines.lock().unwrap().push((scen.name.to_string(), i, seed, a.log_hash));
                    })
                    .unwrap();
            }
        });
    }
    let mut lines = lines.into_inner().unwrap();
    lines.sort();
    if print {
        for (name, i, seed, h) in &lines {
            println!("H {name} {i} {seed} {h:016x}");
        }
    }
    let bad = bad.load(Ordering::SeqCst);
    eprintln!("selftest: {} runs x2, {} diverged", lines.len(), bad);
    if bad > 0 {
        2
    } else {
        0
    }
}
