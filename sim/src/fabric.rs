//! In-memory datagram fabric + quinn socket/runtime seams.
//!
//! The fabric is the only path between `SimSocket`s. Every datagram's fate (drop, duplicate,
//! corrupt, truncate, delay spike) and delay is drawn from the PRNG stream of its directed link,
//! a fixed number of draws per datagram, so that switching one fault off (explicit fault mode,
//! used by the minimiser) never shifts any other decision.

use crate::choice::{Choice, RunHash};
use quinn::udp::{RecvMeta, Transmit};
use quinn::{AsyncUdpSocket, UdpPoller};
use rand::{rngs::StdRng, Rng};
use serde::{Deserialize, Serialize};
use std::collections::{BTreeMap, BTreeSet, BinaryHeap, VecDeque};
use std::future::Future;
use std::io;
use std::net::SocketAddr;
use std::pin::Pin;
use std::sync::{Arc, Mutex};
use std::task::{Context, Poll, Waker};
use std::time::Duration;

/// Datagrams a simulated socket accepts per simulated millisecond (~600 Mbit/s at 1200 bytes).
pub const NIC_BURST: u32 = 64;

fn nic_budget(saturated_streak: u32) -> u32 {
    (NIC_BURST >> saturated_streak.min(6)).max(1)
}

#[derive(Clone, Debug)]
pub struct LinkCfg {
    pub drop: f64,
    pub dup: f64,
    pub corrupt: f64,
    pub truncate: f64,
    pub spike: f64,
    pub spike_max_ms: u64,
    pub lat_min_us: u64,
    pub lat_max_us: u64,
}

impl LinkCfg {
    pub fn clean(lat_min_us: u64, lat_max_us: u64) -> Self {
        Self {
            drop: 0.0,
            dup: 0.0,
            corrupt: 0.0,
            truncate: 0.0,
            spike: 0.0,
            spike_max_ms: 0,
            lat_min_us,
            lat_max_us: lat_max_us.max(lat_min_us),
        }
    }
    pub fn constant(us: u64) -> Self {
        Self::clean(us, us)
    }
    pub fn lossy(mut self, drop: f64, dup: f64) -> Self {
        self.drop = drop;
        self.dup = dup;
        self
    }
}

#[derive(Clone, Debug, PartialEq, Eq, PartialOrd, Ord, Serialize, Deserialize)]
pub struct FaultKey {
    pub stream: String,
    pub index: u64,
    pub kind: String,
}

#[derive(Clone, Debug)]
pub enum FaultMode {
    /// Faults fire according to the link configuration and the link's PRNG stream.
    Prng,
    /// Only the listed faults fire (delays still come from the PRNG streams).
    Explicit(BTreeSet<FaultKey>),
}

#[derive(PartialEq, Eq, PartialOrd, Ord)]
struct Pending {
    at_ns: std::cmp::Reverse<u64>,
    seq: std::cmp::Reverse<u64>,
    to: SocketAddr,
    from: SocketAddr,
    data: Vec<u8>,
}

struct LinkState {
    rng: StdRng,
    idx: u64,
    name: String,
    cfg: Option<LinkCfg>,
}

#[derive(Clone, Debug, Serialize)]
pub struct ConnAttempt {
    pub at_ns: u64,
    pub from: SocketAddr,
    pub to: SocketAddr,
}

pub struct FabricInner {
    choice: Choice,
    default_link: LinkCfg,
    links: BTreeMap<(SocketAddr, SocketAddr), LinkState>,
    blocked: BTreeSet<(SocketAddr, SocketAddr)>,
    stalled: BTreeMap<SocketAddr, u64>,
    heap: BinaryHeap<Pending>,
    seq: u64,
    inbox: BTreeMap<SocketAddr, VecDeque<(SocketAddr, Vec<u8>)>>,
    wakers: BTreeMap<SocketAddr, Waker>,
    bound: BTreeSet<SocketAddr>,
    pump_waker: Option<Waker>,
    fault_mode: FaultMode,
    faults_enabled: bool,
    pub fired: Vec<FaultKey>,
    pub counts: BTreeMap<&'static str, u64>,
    pub hash: RunHash,
    record_log: bool,
    trace: bool,
    pub log: Vec<String>,
    seen_dcid: BTreeSet<Vec<u8>>,
    pub attempts: Vec<ConnAttempt>,
    recv_errors: BTreeMap<SocketAddr, VecDeque<io::ErrorKind>>,
    send_blocked_until: BTreeMap<SocketAddr, u64>,
    send_errors: BTreeMap<SocketAddr, u32>,
    nic: BTreeMap<(SocketAddr, SocketAddr), (u64, u32, u32)>,
    nic_hint: BTreeMap<SocketAddr, u64>,
    pub delivered: u64,
    pub sent: u64,
    pub bytes: u64,
    pub max_latency_ns: u64,
    pub unbind_log: Vec<(u64, SocketAddr)>,
    /// Receive batching (decided per run): datagrams due at the same instant - a burst over a
    /// constant-latency link, everything held back for a stalled host - are handed to the
    /// receiving socket together, so that its driver sees them in one poll, as a host that was
    /// busy for a moment finds them in its socket buffer; otherwise one by one with the
    /// receiver running in between.
    batch: bool,
}

#[derive(Clone)]
pub struct Fabric {
    inner: Arc<Mutex<FabricInner>>,
    t0: tokio::time::Instant,
}

impl Fabric {
    pub fn new(choice: Choice, default_link: LinkCfg, fault_mode: FaultMode, record_log: bool) -> Self {
        let batch = {
            use rand::Rng;
            choice.stream("cfg:fabric-receive-batching").gen_bool(0.5)
        };
        Fabric {
            inner: Arc::new(Mutex::new(FabricInner {
                choice,
                default_link,
                links: BTreeMap::new(),
                blocked: BTreeSet::new(),
                stalled: BTreeMap::new(),
                heap: BinaryHeap::new(),
                seq: 0,
                inbox: BTreeMap::new(),
                wakers: BTreeMap::new(),
                bound: BTreeSet::new(),
                pump_waker: None,
                fault_mode,
                faults_enabled: true,
                fired: Vec::new(),
                counts: BTreeMap::new(),
                hash: RunHash::default(),
                record_log,
                trace: std::env::var("VERIF_TRACE_FABRIC").is_ok(),
                log: Vec::new(),
                seen_dcid: BTreeSet::new(),
                attempts: Vec::new(),
                recv_errors: BTreeMap::new(),
                send_blocked_until: BTreeMap::new(),
                send_errors: BTreeMap::new(),
                nic: BTreeMap::new(),
                nic_hint: BTreeMap::new(),
                delivered: 0,
                sent: 0,
                bytes: 0,
                max_latency_ns: 0,
                unbind_log: Vec::new(),
                batch,
            })),
            t0: tokio::time::Instant::now(),
        }
    }

    pub fn lock(&self) -> std::sync::MutexGuard<'_, FabricInner> {
        self.inner.lock().unwrap()
    }

    pub fn now_ns(&self) -> u64 {
        (tokio::time::Instant::now() - self.t0).as_nanos() as u64
    }

    pub fn t0(&self) -> tokio::time::Instant {
        self.t0
    }

    // ---- configuration / fault schedule -------------------------------------------------

    pub fn set_default_link(&self, cfg: LinkCfg) {
        self.lock().default_link = cfg;
    }

    pub fn set_link(&self, from: SocketAddr, to: SocketAddr, cfg: LinkCfg) {
        let mut f = self.lock();
        f.link(from, to).cfg = Some(cfg);
    }

    /// Stop (or resume) firing per-datagram faults; delays keep being drawn.
    pub fn set_faults_enabled(&self, on: bool) {
        self.lock().faults_enabled = on;
    }

    pub fn block(&self, from: SocketAddr, to: SocketAddr) {
        let mut f = self.lock();
        f.blocked.insert((from, to));
        *f.counts.entry("blackhole_set").or_default() += 1;
    }

    pub fn unblock(&self, from: SocketAddr, to: SocketAddr) {
        self.lock().blocked.remove(&(from, to));
    }

    pub fn partition(&self, a: SocketAddr, b: SocketAddr) {
        let mut f = self.lock();
        f.blocked.insert((a, b));
        f.blocked.insert((b, a));
        *f.counts.entry("partition_set").or_default() += 1;
    }

    pub fn heal(&self, a: SocketAddr, b: SocketAddr) {
        let mut f = self.lock();
        f.blocked.remove(&(a, b));
        f.blocked.remove(&(b, a));
    }

    pub fn isolate(&self, a: SocketAddr) {
        let mut f = self.lock();
        let others: Vec<_> = f.bound.iter().copied().filter(|x| *x != a).collect();
        for o in others {
            f.blocked.insert((a, o));
            f.blocked.insert((o, a));
        }
        *f.counts.entry("isolate_set").or_default() += 1;
    }

    pub fn heal_all(&self) {
        let mut f = self.lock();
        f.blocked.clear();
        f.stalled.clear();
    }

    /// Hold all traffic from/to `addr` until `until_ns` (a slow / stalled node).
    pub fn stall(&self, addr: SocketAddr, until_ns: u64) {
        let mut f = self.lock();
        f.stalled.insert(addr, until_ns);
        *f.counts.entry("stall_set").or_default() += 1;
    }

    pub fn inject_recv_error(&self, addr: SocketAddr, kind: io::ErrorKind) {
        let w = {
            let mut f = self.lock();
            f.recv_errors.entry(addr).or_default().push_back(kind);
            *f.counts.entry("recv_error").or_default() += 1;
            f.wakers.remove(&addr)
        };
        if let Some(w) = w {
            w.wake();
        }
    }

    pub fn block_sends(&self, addr: SocketAddr, until_ns: u64) {
        let mut f = self.lock();
        f.send_blocked_until.insert(addr, until_ns);
        *f.counts.entry("send_wouldblock_window").or_default() += 1;
    }

    pub fn fail_sends(&self, addr: SocketAddr, n: u32) {
        let mut f = self.lock();
        *f.send_errors.entry(addr).or_default() += n;
    }

    pub fn is_bound(&self, addr: SocketAddr) -> bool {
        self.lock().bound.contains(&addr)
    }

    pub fn bind(&self, addr: SocketAddr) -> io::Result<Arc<SimSocket>> {
        let mut f = self.lock();
        if !f.bound.insert(addr) {
            return Err(io::Error::new(io::ErrorKind::AddrInUse, "sim: address in use"));
        }
        f.inbox.remove(&addr);
        let now = self.now_ns();
        f.note(now, 6, addr, addr, 0, || format!("BIND {addr}"));
        Ok(Arc::new(SimSocket {
            addr,
            reported: addr,
            fabric: self.clone(),
        }))
    }

    /// A dual-stack socket: bound on an IPv6 wildcard-style address (what `local_addr` reports),
    /// reachable from IPv4 peers at the host's IPv4 address `addr` (its identity on the fabric),
    /// sending to IPv4 peers through IPv4-mapped destinations and reporting IPv4 senders as
    /// IPv4-mapped addresses - the way a `[::]:port` socket behaves on a dual-stack host.
    pub fn bind_dual_stack(&self, addr: SocketAddr) -> io::Result<Arc<SimSocket>> {
        let s = self.bind(addr)?;
        // (the plain socket must not run its Drop: the address stays bound)
        std::mem::forget(s);
        let last = match addr.ip() {
            std::net::IpAddr::V4(v4) => v4.octets()[3],
            _ => 0,
        };
        let reported = SocketAddr::new(std::net::IpAddr::V6(std::net::Ipv6Addr::new(0xfd77, 0, 0, 0, 0, 0, 0, last as u16)), addr.port());
        Ok(Arc::new(SimSocket { addr, reported, fabric: self.clone() }))
    }

    pub fn spawn_pump(&self) -> tokio::task::JoinHandle<()> {
        tokio::spawn(self.clone().pump())
    }

    pub fn quiet(&self) -> bool {
        self.lock().heap.is_empty()
    }

    // ---- datagram path ------------------------------------------------------------------

    fn send(&self, from: SocketAddr, to: SocketAddr, data: &[u8]) {
        let now = self.now_ns();
        let mut guard = self.lock();
        let f = &mut *guard;
        f.sent += 1;
        f.bytes += data.len() as u64;
        f.observe_initial(now, from, to, data);

        let default_link = f.default_link.clone();
        let faults_enabled = f.faults_enabled;
        let explicit = matches!(f.fault_mode, FaultMode::Explicit(_));
        let link = f.link(from, to);
        let idx = link.idx;
        link.idx += 1;
        let cfg = link.cfg.clone().unwrap_or(default_link);
        // Fixed number of draws per datagram.
        let r_drop: f64 = link.rng.gen();
        let r_dup: f64 = link.rng.gen();
        let r_corrupt: f64 = link.rng.gen();
        let r_trunc: f64 = link.rng.gen();
        let r_spike: f64 = link.rng.gen();
        let r_delay: u64 = link.rng.gen();
        let r_delay2: u64 = link.rng.gen();
        let r_pos: u64 = link.rng.gen();
        let r_spike_len: u64 = link.rng.gen();
        let name = link.name.clone();

        let span = cfg.lat_max_us - cfg.lat_min_us + 1;
        let mut delay_ns = (cfg.lat_min_us + r_delay % span) * 1000 + (r_delay >> 40) % 1000;
        let delay2_ns = (cfg.lat_min_us + r_delay2 % span) * 1000 + (r_delay2 >> 40) % 1000;

        if f.blocked.contains(&(from, to)) {
            *f.counts.entry("partition_drop").or_default() += 1;
            f.note(now, 1, from, to, data.len(), || format!("PDROP {from}>{to} len={}", data.len()));
            return;
        }

        let fires = |f: &mut FabricInner, kind: &'static str, r: f64, p: f64| -> bool {
            let hit = match &f.fault_mode {
                FaultMode::Prng => faults_enabled && r < p,
                FaultMode::Explicit(set) => set.contains(&FaultKey {
                    stream: name.clone(),
                    index: idx,
                    kind: kind.to_string(),
                }),
            };
            if hit {
                f.fired.push(FaultKey {
                    stream: name.clone(),
                    index: idx,
                    kind: kind.to_string(),
                });
                *f.counts.entry(kind).or_default() += 1;
            }
            hit
        };
        let _ = explicit;

        if fires(f, "drop", r_drop, cfg.drop) {
            f.note(now, 2, from, to, data.len(), || format!("DROP {from}>{to} #{idx} len={}", data.len()));
            return;
        }
        let mut payload = data.to_vec();
        if !payload.is_empty() && fires(f, "corrupt", r_corrupt, cfg.corrupt) {
            let pos = (r_pos % payload.len() as u64) as usize;
            payload[pos] ^= 1 << ((r_pos >> 32) % 8);
        }
        if payload.len() > 1 && fires(f, "truncate", r_trunc, cfg.truncate) {
            let keep = 1 + (r_pos >> 8) as usize % (payload.len() - 1);
            payload.truncate(keep);
        }
        if fires(f, "spike", r_spike, cfg.spike) {
            delay_ns += (r_spike_len % (cfg.spike_max_ms.max(1) * 1_000_000)).max(1_000_000);
        }
        let dup = fires(f, "dup", r_dup, cfg.dup);
        let len = payload.len();
        let mut push = |f: &mut FabricInner, at: u64, data: Vec<u8>, c: u8| {
            f.seq += 1;
            let seq = f.seq;
            f.max_latency_ns = f.max_latency_ns.max(at - now);
            f.note(now, 3, from, to, len, || format!("SEND {from}>{to} #{idx}.{c} len={len} at={at}"));
            f.heap.push(Pending {
                at_ns: std::cmp::Reverse(at),
                seq: std::cmp::Reverse(seq),
                to,
                from,
                data,
            });
        };
        if dup {
            push(f, now + delay_ns + delay2_ns, payload.clone(), 1);
        }
        push(f, now + delay_ns, payload, 0);
        if let Some(w) = f.pump_waker.take() {
            drop(guard);
            w.wake();
        }
    }

    async fn pump(self) {
        loop {
            let next = { self.lock().heap.peek().map(|p| p.at_ns.0) };
            match next {
                None => {
                    futures::future::poll_fn(|cx| {
                        let mut f = self.lock();
                        if f.heap.is_empty() {
                            f.pump_waker = Some(cx.waker().clone());
                            Poll::Pending
                        } else {
                            Poll::Ready(())
                        }
                    })
                    .await;
                }
                Some(at) => {
                    let now = self.now_ns();
                    if at > now {
                        let sleep = tokio::time::sleep(Duration::from_nanos(at - now));
                        tokio::pin!(sleep);
                        futures::future::poll_fn(|cx| {
                            if sleep.as_mut().poll(cx).is_ready() {
                                return Poll::Ready(());
                            }
                            let mut f = self.lock();
                            if f.heap.peek().map(|p| p.at_ns.0 < at).unwrap_or(false) {
                                return Poll::Ready(());
                            }
                            f.pump_waker = Some(cx.waker().clone());
                            Poll::Pending
                        })
                        .await;
                        continue;
                    }
                    let w = {
                        let mut guard = self.lock();
                        let f = &mut *guard;
                        let p = f.heap.pop().unwrap();
                        // A stalled node neither receives nor (effectively) sends until the stall ends.
                        let hold = [p.to, p.from]
                            .iter()
                            .filter_map(|a| f.stalled.get(a).copied())
                            .max()
                            .filter(|until| *until > now);
                        if let Some(until) = hold {
                            *f.counts.entry("stall_held").or_default() += 1;
                            let spread = if f.batch { 0 } else { (p.seq.0 % 1000) * 1000 };
                            f.heap.push(Pending {
                                at_ns: std::cmp::Reverse(until + spread),
                                ..p
                            });
                            None
                        } else if f.bound.contains(&p.to) {
                            f.delivered += 1;
                            let (from, to, len) = (p.from, p.to, p.data.len());
                            f.note(now, 4, from, to, len, || format!("DELIVER {from}>{to} len={len}"));
                            f.inbox.entry(p.to).or_default().push_back((p.from, p.data));
                            f.wakers.remove(&p.to)
                        } else {
                            let (from, to, len) = (p.from, p.to, p.data.len());
                            f.note(now, 5, from, to, len, || format!("NOROUTE {from}>{to} len={len}"));
                            None
                        }
                    };
                    if let Some(w) = w {
                        w.wake();
                    }
                    {
                        let f = self.lock();
                        if f.batch && f.heap.peek().map(|n| n.at_ns.0 <= now).unwrap_or(false) {
                            // more is due at this very instant: deliver it before anyone runs
                            continue;
                        }
                    }
                    tokio::task::yield_now().await;
                }
            }
        }
    }
}

impl FabricInner {
    fn link(&mut self, from: SocketAddr, to: SocketAddr) -> &mut LinkState {
        let choice = self.choice;
        self.links.entry((from, to)).or_insert_with(|| {
            let name = format!("link:{from}>{to}");
            LinkState {
                rng: choice.stream(&name),
                idx: 0,
                name,
                cfg: None,
            }
        })
    }

    fn note(&mut self, now: u64, kind: u64, from: SocketAddr, to: SocketAddr, len: usize, text: impl FnOnce() -> String) {
        self.hash.push_u64(now);
        self.hash.push_u64(kind);
        self.hash.push_u64(addr_code(from));
        self.hash.push_u64(addr_code(to));
        self.hash.push_u64(len as u64);
        if self.record_log {
            let t = text();
            if self.trace {
                eprintln!("{now} {t}");
            }
            self.log.push(format!("{now} {t}"));
        }
    }

    /// A client's first flight: QUIC long-header Initial whose destination connection id is the
    /// 20-byte random id quinn clients pick for a fresh connection (all other ids are 8 bytes).
    fn observe_initial(&mut self, now: u64, from: SocketAddr, to: SocketAddr, data: &[u8]) {
        if data.len() < 7 || data[0] & 0x80 == 0 || (data[0] & 0x30) != 0 {
            return;
        }
        if data[1..5] != [0, 0, 0, 1] {
            return;
        }
        let dl = data[5] as usize;
        if dl != 20 || data.len() < 6 + dl {
            return;
        }
        let dcid = data[6..6 + dl].to_vec();
        if self.seen_dcid.insert(dcid) {
            self.attempts.push(ConnAttempt { at_ns: now, from, to });
        }
    }

    pub fn total_faults(&self) -> u64 {
        self.fired.len() as u64
    }
}

fn addr_code(a: SocketAddr) -> u64 {
    match a {
        SocketAddr::V4(v) => ((u32::from(*v.ip()) as u64) << 16) | v.port() as u64,
        SocketAddr::V6(v) => v.port() as u64,
    }
}

// ---------------------------------------------------------------------------------------------
// sockets
// ---------------------------------------------------------------------------------------------

pub struct SimSocket {
    /// identity on the fabric (the address peers send to)
    addr: SocketAddr,
    /// what `local_addr` reports (differs from `addr` for a dual-stack socket)
    reported: SocketAddr,
    fabric: Fabric,
}

/// IPv4-mapped IPv6 destinations (what a dual-stack socket is given for IPv4 peers) are IPv4 peers.
fn canonical(a: SocketAddr) -> SocketAddr {
    match a {
        SocketAddr::V6(v6) => match v6.ip().to_ipv4_mapped() {
            Some(v4) => SocketAddr::new(std::net::IpAddr::V4(v4), v6.port()),
            None => a,
        },
        _ => a,
    }
}

impl std::fmt::Debug for SimSocket {
    fn fmt(&self, f: &mut std::fmt::Formatter<'_>) -> std::fmt::Result {
        write!(f, "SimSocket({})", self.addr)
    }
}

impl Drop for SimSocket {
    fn drop(&mut self) {
        let now = self.fabric.now_ns();
        let mut f = self.fabric.lock();
        f.bound.remove(&self.addr);
        f.inbox.remove(&self.addr);
        f.wakers.remove(&self.addr);
        f.unbind_log.push((now, self.addr));
        let addr = self.addr;
        f.note(now, 7, addr, addr, 0, || format!("UNBIND {addr}"));
    }
}

struct SimPoller {
    sock: Arc<SimSocket>,
    sleep: Option<Pin<Box<tokio::time::Sleep>>>,
}

impl std::fmt::Debug for SimPoller {
    fn fmt(&self, f: &mut std::fmt::Formatter<'_>) -> std::fmt::Result {
        write!(f, "SimPoller")
    }
}

impl UdpPoller for SimPoller {
    fn poll_writable(mut self: Pin<&mut Self>, cx: &mut Context) -> Poll<io::Result<()>> {
        let now = self.sock.fabric.now_ns();
        let until = {
            let mut f = self.sock.fabric.lock();
            let whole = f.send_blocked_until.get(&self.sock.addr).copied().unwrap_or(0);
            // the most recent per-destination refusal on this socket (set by the try_send that
            // made quinn ask for writability)
            let hint = if self.sleep.is_none() { f.nic_hint.remove(&self.sock.addr).unwrap_or(0) } else { 0 };
            whole.max(hint)
        };
        if self.sleep.is_some() && until <= now {
            // keep waiting on the sleep created for a per-destination refusal
            return match self.sleep.as_mut().unwrap().as_mut().poll(cx) {
                Poll::Ready(()) => {
                    self.sleep = None;
                    Poll::Ready(Ok(()))
                }
                Poll::Pending => Poll::Pending,
            };
        }
        if until <= now {
            self.sleep = None;
            return Poll::Ready(Ok(()));
        }
        let sleep = self
            .sleep
            .get_or_insert_with(|| Box::pin(tokio::time::sleep(Duration::from_nanos(until - now))));
        match sleep.as_mut().poll(cx) {
            Poll::Ready(()) => {
                self.sleep = None;
                Poll::Ready(Ok(()))
            }
            Poll::Pending => Poll::Pending,
        }
    }
}

impl AsyncUdpSocket for SimSocket {
    fn create_io_poller(self: Arc<Self>) -> Pin<Box<dyn UdpPoller>> {
        Box::pin(SimPoller {
            sock: self,
            sleep: None,
        })
    }

    fn try_send(&self, t: &Transmit) -> io::Result<()> {
        let destination = canonical(t.destination);
        {
            let now = self.fabric.now_ns();
            let mut f = self.fabric.lock();
            if f.send_blocked_until.get(&self.addr).copied().unwrap_or(0) > now {
                *f.counts.entry("send_wouldblock").or_default() += 1;
                return Err(io::Error::new(io::ErrorKind::WouldBlock, "sim: send buffer full"));
            }
            // Finite-rate NIC: at most NIC_BURST datagrams per simulated millisecond and socket.
            // Beyond that the socket is not writable until the next millisecond, so virtual time
            // advances even if an endpoint tries to send in a tight loop (with a paused clock a
            // loop that never awaits a timer would otherwise freeze time forever).
            let ms = now / 1_000_000;
            let e = f.nic.entry((self.addr, destination)).or_insert((ms, 0, 0));
            if e.0 != ms {
                // a socket that keeps its queue full is drained more and more slowly (any rate is
                // a legal network); one quiet millisecond resets it
                let saturated = e.1 > nic_budget(e.2) && e.0 + 1 == ms;
                *e = (ms, 0, if saturated { (e.2 + 1).min(8) } else { 0 });
            }
            e.1 += 1;
            if e.1 > nic_budget(e.2) {
                // per-destination queue (fair queueing): only the sender to this destination waits
                f.nic_hint.insert(self.addr, (ms + 1) * 1_000_000);
                *f.counts.entry("nic_rate_limited").or_default() += 1;
                return Err(io::Error::new(io::ErrorKind::WouldBlock, "sim: NIC queue full"));
            }
            if let Some(n) = f.send_errors.get_mut(&self.addr) {
                if *n > 0 {
                    *n -= 1;
                    *f.counts.entry("send_error").or_default() += 1;
                    return Err(io::Error::new(io::ErrorKind::Other, "sim: transient send error"));
                }
            }
        }
        let seg = t.segment_size.unwrap_or(t.contents.len().max(1));
        for chunk in t.contents.chunks(seg) {
            self.fabric.send(self.addr, destination, chunk);
        }
        Ok(())
    }

    fn poll_recv(
        &self,
        cx: &mut Context,
        bufs: &mut [io::IoSliceMut<'_>],
        meta: &mut [RecvMeta],
    ) -> Poll<io::Result<usize>> {
        let mut f = self.fabric.lock();
        if let Some(q) = f.recv_errors.get_mut(&self.addr) {
            if let Some(kind) = q.pop_front() {
                return Poll::Ready(Err(io::Error::new(kind, "sim: injected recv error")));
            }
        }
        let q = f.inbox.entry(self.addr).or_default();
        if let Some((from, data)) = q.pop_front() {
            let n = data.len().min(bufs[0].len());
            bufs[0][..n].copy_from_slice(&data[..n]);
            // (a dual-stack socket reports IPv4 senders as IPv4-mapped addresses)
            let from = match (self.reported, from) {
                (SocketAddr::V6(_), SocketAddr::V4(v4)) => SocketAddr::new(std::net::IpAddr::V6(v4.ip().to_ipv6_mapped()), v4.port()),
                _ => from,
            };
            meta[0] = RecvMeta {
                addr: from,
                len: n,
                stride: n,
                ecn: None,
                dst_ip: None,
            };
            Poll::Ready(Ok(1))
        } else {
            f.wakers.insert(self.addr, cx.waker().clone());
            Poll::Pending
        }
    }

    fn local_addr(&self) -> io::Result<SocketAddr> {
        Ok(self.reported)
    }

    fn may_fragment(&self) -> bool {
        false
    }
}

/// Detached socket handed out for the two throw-away sockets of anemo's shutdown "rebind" trick.
#[derive(Debug)]
pub struct NullSocket(SocketAddr);

#[derive(Debug)]
struct AlwaysWritable;

impl UdpPoller for AlwaysWritable {
    fn poll_writable(self: Pin<&mut Self>, _cx: &mut Context) -> Poll<io::Result<()>> {
        Poll::Ready(Ok(()))
    }
}

impl AsyncUdpSocket for NullSocket {
    fn create_io_poller(self: Arc<Self>) -> Pin<Box<dyn UdpPoller>> {
        Box::pin(AlwaysWritable)
    }
    fn try_send(&self, _t: &Transmit) -> io::Result<()> {
        Ok(())
    }
    fn poll_recv(&self, _cx: &mut Context, _b: &mut [io::IoSliceMut<'_>], _m: &mut [RecvMeta]) -> Poll<io::Result<usize>> {
        Poll::Pending
    }
    fn local_addr(&self) -> io::Result<SocketAddr> {
        Ok(self.0)
    }
}

// ---------------------------------------------------------------------------------------------
// quinn runtime seam
// ---------------------------------------------------------------------------------------------

/// quinn `Runtime` on the virtual clock. Records the abort handles of every task quinn spawns
/// through it (endpoint driver first, then connection drivers) for partial-teardown faults.
#[derive(Debug, Default)]
pub struct SimRuntime {
    pub spawned: Mutex<Vec<tokio::task::AbortHandle>>,
}

impl quinn::Runtime for SimRuntime {
    fn new_timer(&self, i: std::time::Instant) -> Pin<Box<dyn quinn::AsyncTimer>> {
        if std::env::var("VERIF_TRACE_TIMERS").is_ok() {
            return Box::pin(TraceTimer(quinn::TokioRuntime.new_timer(i), NEXT_TIMER.fetch_add(1, std::sync::atomic::Ordering::SeqCst)));
        }
        quinn::TokioRuntime.new_timer(i)
    }
    fn spawn(&self, future: Pin<Box<dyn Future<Output = ()> + Send>>) {
        let h = tokio::spawn(future);
        self.spawned.lock().unwrap().push(h.abort_handle());
    }
    fn wrap_udp_socket(&self, t: std::net::UdpSocket) -> io::Result<Arc<dyn AsyncUdpSocket>> {
        let addr = t.local_addr()?;
        Ok(Arc::new(NullSocket(addr)))
    }
    fn now(&self) -> std::time::Instant {
        tokio::time::Instant::now().into_std()
    }
}

static NEXT_TIMER: std::sync::atomic::AtomicU64 = std::sync::atomic::AtomicU64::new(0);

#[derive(Debug)]
struct TraceTimer(Pin<Box<dyn quinn::AsyncTimer>>, u64);

impl quinn::AsyncTimer for TraceTimer {
    fn reset(mut self: Pin<&mut Self>, i: std::time::Instant) {
        let now = tokio::time::Instant::now().into_std();
        eprintln!("TIMER {} reset to now+{:?}", self.1, i.saturating_duration_since(now));
        self.0.as_mut().reset(i)
    }
    fn poll(mut self: Pin<&mut Self>, cx: &mut Context) -> Poll<()> {
        let r = self.0.as_mut().poll(cx);
        if r.is_ready() {
            eprintln!("TIMER {} fired", self.1);
        }
        r
    }
}
