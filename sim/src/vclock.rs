//! The monotonic clock seam. Code under test (and anything it may come to call) reads the
//! monotonic clock through `std::time::Instant::now()` / `Instant::elapsed()`, i.e. libc's
//! `clock_gettime(CLOCK_MONOTONIC)`. The `sim` binary defines that symbol itself and asks this
//! module first: on a thread that is executing a simulated run the answer is the run's *virtual*
//! time (a fixed epoch plus tokio's paused-clock offset), everywhere else the real clock.
//!
//! Consequences: every run starts at exactly the same instant (the epoch), an `Instant` taken with
//! std and one taken with tokio lie on one timeline, and a deadline computed from
//! `Instant::now()` anywhere in anemo, quinn or a future change to them follows simulated time.

use std::cell::Cell;

/// Virtual runs start this long after the monotonic clock's origin (room for `now - duration`).
pub const EPOCH_NS: u64 = 100_000 * 1_000_000_000;

thread_local! {
    static ACTIVE: Cell<bool> = const { Cell::new(false) };
    static IN_HOOK: Cell<bool> = const { Cell::new(false) };
    static LAST_NS: Cell<u64> = const { Cell::new(0) };
    static EPOCH_INSTANT: Cell<Option<std::time::Instant>> = const { Cell::new(None) };
}

/// Switch this thread to virtual monotonic time, starting at the epoch.
pub fn activate() {
    LAST_NS.with(|l| l.set(0));
    EPOCH_INSTANT.with(|e| e.set(None));
    ACTIVE.with(|a| a.set(true));
    // (reads the clock through the seam: exactly the epoch)
    let e = std::time::Instant::now();
    EPOCH_INSTANT.with(|c| c.set(Some(e)));
}

pub fn deactivate() {
    ACTIVE.with(|a| a.set(false));
}

/// Nanoseconds the monotonic clock shows on this thread, if it is on virtual time.
pub fn virtual_monotonic_ns() -> Option<u64> {
    if !ACTIVE.try_with(|a| a.get()).unwrap_or(false) {
        return None;
    }
    let last = LAST_NS.with(|l| l.get());
    if IN_HOOK.with(|h| h.replace(true)) {
        // a clock read made while answering a clock read
        return Some(EPOCH_NS + last);
    }
    let mut ns = last;
    if let Some(epoch) = EPOCH_INSTANT.with(|e| e.get()) {
        if tokio::runtime::Handle::try_current().is_ok() {
            let now = tokio::time::Instant::now().into_std();
            ns = now.saturating_duration_since(epoch).as_nanos() as u64;
        }
    }
    // monotonic on this thread, whatever the context
    let ns = ns.max(last);
    LAST_NS.with(|l| l.set(ns));
    IN_HOOK.with(|h| h.set(false));
    Some(EPOCH_NS + ns)
}
