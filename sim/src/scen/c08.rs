//! C08 — shutdown always completes, releases everything and never panics.

use super::common::*;
use crate::fabric::LinkCfg;
use crate::runner::{after_runtime_teardown, ScenFuture, Scenario};
use crate::world::*;
use anemo::types::{PeerAffinity, PeerEvent, PeerInfo};
use anemo::{NetworkRef, Request, Response};
use bytes::Bytes;
use rand::Rng;
use serde_json::json;
use std::convert::Infallible;
use std::sync::atomic::{AtomicI64, Ordering};
use std::sync::{Arc, Mutex};
use std::time::Duration;

pub static SHUTDOWN: Scenario = Scenario {
    id: "C08",
    name: "c08-shutdown",
    run,
    quick_runs: 12_000,
    thorough_runs: 150_000,
    rule: "one run = 2-4 real Networks; at a PRNG instant one of them is shut down (explicitly, twice concurrently, or by dropping its last handle) with a PRNG mix of in-flight work (RPCs in both directions with sleeping handlers, a handler holding an upgraded NetworkRef, explicit dials to dead addresses, background dials, an inbound handshake in progress over a slow link, concurrent and subsequent API calls), or its endpoint driver is killed (fatal recv error / aborted task), or the runtime is torn down with handles alive; distinct = distinct order signature (in-flight mix, mode, fault, outcomes); non-trivial = every run (something is always in flight or torn down)",
    real: super::REAL_NET,
    stubbed: super::STUB_NET,
};

/// Service of the node being shut down: counts live clones, sleeps, optionally holds an upgraded
/// `NetworkRef` while sleeping.
#[derive(Debug)]
struct HoldSvc {
    clones: Arc<AtomicI64>,
    started: Arc<AtomicI64>,
    hold_ref: bool,
}

impl Clone for HoldSvc {
    fn clone(&self) -> Self {
        self.clones.fetch_add(1, Ordering::SeqCst);
        HoldSvc { clones: self.clones.clone(), started: self.started.clone(), hold_ref: self.hold_ref }
    }
}

impl Drop for HoldSvc {
    fn drop(&mut self) {
        self.clones.fetch_sub(1, Ordering::SeqCst);
    }
}

impl tower::Service<Request<Bytes>> for HoldSvc {
    type Response = Response<Bytes>;
    type Error = Infallible;
    type Future = std::pin::Pin<Box<dyn std::future::Future<Output = Result<Response<Bytes>, Infallible>> + Send>>;
    fn poll_ready(&mut self, _: &mut std::task::Context<'_>) -> std::task::Poll<Result<(), Infallible>> {
        std::task::Poll::Ready(Ok(()))
    }
    fn call(&mut self, req: Request<Bytes>) -> Self::Future {
        let held = if self.hold_ref { req.extensions().get::<NetworkRef>().and_then(|r| r.upgrade()) } else { None };
        let delay: u64 = req.headers().get("x-delay-ms").and_then(|v| v.parse().ok()).unwrap_or(0);
        let hold: u64 = req.headers().get("x-hold-ms").and_then(|v| v.parse().ok()).unwrap_or(0);
        let busy: u64 = req.headers().get("x-busy-ms").and_then(|v| v.parse().ok()).unwrap_or(0);
        self.started.fetch_add(1, Ordering::SeqCst);
        // (as services usually do, the handler keeps a clone of its service for as long as it runs)
        let me = self.clone();
        Box::pin(async move {
            let _me = me;
            // a CPU-bound stretch: the task running this handler occupies its worker thread
            hold_current_task(Duration::from_millis(hold));
            // ... or it is busy on a resource that is always ready and yields only when tokio's
            // cooperative budget makes it
            busy_on_a_hot_resource(Duration::from_millis(busy)).await;
            tokio::time::sleep(Duration::from_millis(delay)).await;
            drop(held);
            Ok(Response::new(req.into_body()))
        })
    }
}

fn run(input: RunInput) -> ScenFuture {
    Box::pin(async move {
        let w = World::new(&input, LinkCfg::clean(200, 3_000));
        let lossy = w.flag("lossy", 0.25);
        let n_peers = w.param("peers", 1, 3) as usize;
        let lat_max = w.param("lat_max_us", 300, 15_000) as u64;
        let idle_wait_ms = w.param("shutdown_idle_timeout_ms", 100, 3_000) as u64;
        let idle_ms = w.param("idle_ms", 2_000, 8_000) as u64;
        let ka_ms = 500u64;
        // 0 explicit, 1 two concurrent shutdowns, 2 drop of the last handle, 3 fatal recv error,
        // 4 endpoint driver task aborted then runtime teardown, 5 plain runtime teardown
        let mode = w.param("mode", 0, 5);
        let hold_ref = w.flag("handler_holds_network_ref", 0.4) && mode != 2;
        let mut cfg = base_config(idle_ms, Some(ka_ms));
        cfg.shutdown_idle_timeout_ms = Some(idle_wait_ms);
        cfg.connect_timeout_ms = Some(w.param("connect_timeout_ms", 500, 3_000) as u64);
        // a small cap on connections being established, reached by the dials below in some runs
        let cap = w.flag("small_connecting_cap", 0.4).then(|| w.param("connecting_cap", 1, 3) as usize);
        cfg.max_concurrent_outstanding_connecting_connections = cap;
        // a burst of API calls in the very instant of the shutdown, more than the connection
        // manager's mailbox holds: the shutdown request has to wait for room like any other
        let burst = w.flag("connect_burst_fills_the_mailbox", 0.3) && mode <= 1;
        if burst {
            cfg.connection_manager_channel_capacity = Some(w.param("mailbox_capacity", 1, 3) as usize);
        }
        // request deadlines that never expire within a run: settings of another feature, nothing
        // about a shutdown may depend on whether a deadline applies to the requests in flight
        if w.flag("request_deadlines_configured", 0.4) {
            cfg.inbound_request_timeout_ms = Some(3_600_000);
            cfg.outbound_request_timeout_ms = Some(3_600_000);
        }
        cfg.connectivity_check_interval_ms = Some(100);
        cfg.connection_backoff_ms = Some(100);
        cfg.max_connection_backoff_ms = Some(500);
        let clones = Arc::new(AtomicI64::new(1));
        let started = Arc::new(AtomicI64::new(0));
        let svc = HoldSvc { clones: clones.clone(), started: started.clone(), hold_ref };
        let s = w.start_node(w.spec(1, cfg.clone()), svc).unwrap();
        let s_addr = s.addr;
        let s_id = s.peer_id;
        let s_key = s.key;
        let s_rt = s.rt.clone();
        let mut peers = Vec::new();
        let mut peer_logs = Vec::new();
        for i in 0..n_peers {
            let plan: PlanFn = Arc::new(|req: &Request<Bytes>| Plan {
                delay: Duration::from_millis(req.headers().get("x-delay-ms").and_then(|v| v.parse().ok()).unwrap_or(0)),
                response: Response::new(req.body().clone()),
                hold: Duration::from_millis(req.headers().get("x-hold-ms").and_then(|v| v.parse().ok()).unwrap_or(0)),
            });
            let p = Arc::new(w.start_node(w.spec(i as u8 + 2, cfg.clone()), Svc::new(&w, plan)).unwrap());
            let log: Arc<Mutex<Vec<(u64, PeerEvent)>>> = Default::default();
            {
                let (mut rx, _) = p.net.subscribe().unwrap();
                let (w2, log2) = (w.clone(), log.clone());
                tokio::spawn(async move {
                    while let Ok(ev) = rx.recv().await {
                        log2.lock().unwrap().push((w2.now_ns(), ev));
                    }
                });
            }
            peer_logs.push(log);
            peers.push(p);
        }
        // in some runs the node knows its peers - as High or Allowed, before the connections exist:
        // what the known-peer table says has no bearing on how a network goes down
        if w.flag("peers_in_known_peer_table", 0.35) {
            let mut rk = w.rng("cfg:c08-known");
            for p in &peers {
                let affinity = if rk.gen_bool(0.6) { PeerAffinity::High } else { PeerAffinity::Allowed };
                s.net.known_peers().insert(PeerInfo { peer_id: p.peer_id, affinity, address: vec![] });
            }
        }
        // connections (either direction)
        let mut r = w.rng("wl:c08");
        for p in &peers {
            let ok = if r.gen_bool(0.5) { s.net.connect_with_peer_id(p.addr, p.peer_id).await.is_ok() } else { p.net.connect_with_peer_id(s_addr, s_id).await.is_ok() };
            if !ok {
                w.harness_error("setup connect failed");
            }
        }
        // the application may ban a peer that is connected right now (affinity Never in the table):
        // that governs future arrivals; the connectivity checks that run from now on, and the
        // shutdown, deal with a connected peer whose entry says Never
        if w.flag("a_connected_peer_is_reclassified_never", 0.25) {
            s.net.known_peers().insert(PeerInfo { peer_id: peers[0].peer_id, affinity: PeerAffinity::Never, address: vec![] });
            w.probe("connected-peer-with-affinity-never");
        }
        sleep_ms(50).await;
        let mut link = LinkCfg::clean(200, lat_max);
        if lossy {
            link.drop = w.param("drop_pct", 1, 10) as f64 / 100.0;
        }
        w.fabric.set_default_link(link);
        let mut sub = Subscription::new(&s.net).unwrap();
        let weak = s.net.downgrade();
        // the node under shutdown: all its handles live in this Option so that "drop the last handle" is exact
        let s_slot = Arc::new(Mutex::new(Some(s.net.clone())));
        let slot2 = s_slot.clone();
        let net = move || slot2.lock().unwrap().clone();
        drop(s);

        // the application may keep a Peer handle (obtained before the shutdown) for as long as it likes
        let held_peer: Option<anemo::Peer> = if w.flag("app_keeps_peer_handle", 0.3) { net().and_then(|n| n.peer(peers[0].peer_id)) } else { None };
        // ---- in-flight work ----
        let pending: Arc<Mutex<Vec<(String, Option<Result<(), String>>, u64)>>> = Default::default();
        let track = |name: String, fut: std::pin::Pin<Box<dyn std::future::Future<Output = Result<(), String>> + Send>>| {
            let (w2, pending) = (w.clone(), pending.clone());
            let idx = {
                let mut p = pending.lock().unwrap();
                p.push((name, None, 0));
                p.len() - 1
            };
            tokio::spawn(async move {
                let r = fut.await;
                let mut p = pending.lock().unwrap();
                p[idx].1 = Some(r);
                p[idx].2 = w2.now_ns();
            });
        };
        let mut mix = Vec::new();
        let cpu_bound = w.flag("cpu_bound_handlers", 0.3);
        let mut max_hold_ms = 0u64;
        let busy_handlers = w.flag("handlers_busy_on_a_hot_resource", 0.15);
        let mut n_busy = 0;
        if let Some(n0) = net() {
            // RPCs S -> peers with sleeping remote handlers
            for _ in 0..r.gen_range(0..4) {
                let p = peers[r.gen_range(0..n_peers)].clone();
                // (through a Peer handle, which does not keep the Network alive)
                let Some(mut ph) = n0.peer(p.peer_id) else { continue };
                mix.push("rpc-out");
                track("rpc-out".into(), Box::pin(async move {
                    ph.rpc(Request::new(Bytes::from_static(b"o")).with_header("x-delay-ms", "60000")).await.map(|_| ()).map_err(|e| format!("{e:#}"))
                }));
            }
            // RPCs peers -> S with sleeping local handlers, some of them CPU-bound for a while (the
            // task that runs them can neither be polled nor dropped before that is over)
            for _ in 0..r.gen_range(0..4) {
                let p = peers[r.gen_range(0..n_peers)].clone();
                let hold_ms: u64 = if cpu_bound && r.gen_bool(0.6) { r.gen_range(20..1_500) } else { 0 };
                max_hold_ms = max_hold_ms.max(hold_ms);
                let busy_ms: u64 = if busy_handlers && hold_ms == 0 && n_busy < 2 && r.gen_bool(0.7) { n_busy += 1; r.gen_range(50..500) } else { 0 };
                if busy_ms > 0 {
                    w.probe("handler-busy-on-a-hot-resource-at-shutdown");
                }
                mix.push(if hold_ms > 0 { "rpc-in-cpu-bound" } else if busy_ms > 0 { "rpc-in-busy" } else { "rpc-in" });
                if hold_ms > 0 {
                    w.probe("handler-cpu-bound-at-shutdown");
                }
                track("rpc-in".into(), Box::pin(async move {
                    p.net.rpc(s_id, Request::new(Bytes::from_static(b"i")).with_header("x-delay-ms", "60000").with_header("x-hold-ms", hold_ms.to_string()).with_header("x-busy-ms", busy_ms.to_string())).await.map(|_| ()).map_err(|e| format!("{e:#}"))
                }));
            }
            // explicit dials to dead addresses
            for k in 0..(if mode == 2 { 0 } else { r.gen_range(0..5) }) {
                let n1 = n0.clone();
                mix.push("dial-dead");
                track("dial-dead".into(), Box::pin(async move { n1.connect(addr(200 + k as u8)).await.map(|_| ()).map_err(|e| format!("{e:#}")) }));
            }
            // background dials to a dead High-affinity peer
            if r.gen_bool(0.5) {
                mix.push("background-dial");
                n0.known_peers().insert(PeerInfo { peer_id: anemo::PeerId([7; 32]), affinity: PeerAffinity::High, address: vec![addr(210).into()] });
            }
        }
        // an inbound handshake in progress over a slow link
        let late_dialer = if r.gen_bool(0.5) {
            mix.push("inbound-handshake");
            let d = Arc::new(w.start_node(w.spec(9, cfg.clone()), Svc::echo(&w)).unwrap());
            let mut slow = LinkCfg::clean(20_000, 60_000);
            slow.drop = 0.2;
            w.fabric.set_link(d.addr, s_addr, slow.clone());
            w.fabric.set_link(s_addr, d.addr, slow);
            let d2 = d.clone();
            track("inbound-dialer".into(), Box::pin(async move { d2.net.connect(s_addr).await.map(|_| ()).map_err(|e| format!("{e:#}")) }));
            Some(d)
        } else {
            None
        };
        // the application may shut down the very moment it is told about a new peer (a subscriber
        // that reacts to NewPeer): whatever the connection manager still has to do for that
        // connection then - its connecting task to be joined, its handler to be started - happens
        // under the shutdown
        let on_new_peer = mode <= 1 && w.flag("shutdown_the_moment_a_new_peer_is_announced", 0.2);
        let mut fresh_dialer = None;
        if on_new_peer {
            let n0 = net().unwrap();
            let (mut rx, _) = n0.subscribe().unwrap();
            let d = Arc::new(w.start_node(w.spec(10, cfg.clone()), Svc::echo(&w)).unwrap());
            let d_id = d.peer_id;
            let d2 = d.clone();
            mix.push("fresh-connection");
            track("inbound-dialer".into(), Box::pin(async move { d2.net.connect(s_addr).await.map(|_| ()).map_err(|e| format!("{e:#}")) }));
            let _ = tokio::time::timeout(Duration::from_secs(3), async {
                while let Ok(ev) = rx.recv().await {
                    if matches!(ev, PeerEvent::NewPeer(p) if p == d_id) {
                        break;
                    }
                }
            })
            .await;
            w.probe("shutdown-the-moment-a-new-peer-is-announced");
            fresh_dialer = Some(d);
        } else {
            sleep_ms(r.gen_range(0..200)).await;
        }
        w.mark_overlap();
        let mixdesc = mix.join("+");
        let t_shutdown = w.now_ns();
        // (a handler that does not yield cannot be cancelled before it does: that time is the
        // application's, not the network's)
        // (with busy handlers the process is one busy thread: timers fire at the next turn of the
        // timer driver, up to 16 ms of CPU later, at each step of the shutdown)
        let bound_ns = (idle_wait_ms + 2 * lat_max / 1000 + 100 + max_hold_ms + if n_busy > 0 { 100 } else { 0 }) * 1_000_000;
        let mut shutdown_result: Option<Result<(), String>> = None;
        let mut desc = String::new();
        match mode {
            0 | 1 => {
                let n0 = net().unwrap();
                // API calls issued concurrently with the shutdown
                for k in 0..r.gen_range(0..4) {
                    let n1 = n0.clone();
                    let p = peers[r.gen_range(0..n_peers)].clone();
                    let off = r.gen_range(0..30);
                    let which = r.gen_range(0..3);
                    track(format!("concurrent-{which}"), Box::pin(async move {
                        sleep_ms(off).await;
                        match which {
                            0 => n1.connect(addr(220 + k as u8)).await.map(|_| ()).map_err(|e| format!("{e:#}")),
                            1 => n1.rpc(p.peer_id, Request::new(Bytes::from_static(b"c")).with_header("x-delay-ms", "60000")).await.map(|_| ()).map_err(|e| format!("{e:#}")),
                            _ => n1.connect_with_peer_id(p.addr, p.peer_id).await.map(|_| ()).map_err(|e| format!("{e:#}")),
                        }
                    }));
                }
                if burst {
                    for k in 0..r.gen_range(3..9u8) {
                        let n1 = n0.clone();
                        track("burst-connect".into(), Box::pin(async move { n1.connect(addr(230 + k)).await.map(|_| ()).map_err(|e| format!("{e:#}")) }));
                    }
                    // let the burst run: which of those calls and of the manager's own task are
                    // polled before the shutdown call below is the schedule's choice
                    for _ in 0..r.gen_range(0..3) {
                        tokio::task::yield_now().await;
                    }
                    w.probe("shutdown-into-a-connect-burst");
                }
                let second = (mode == 1).then(|| {
                    let n1 = n0.clone();
                    tokio::spawn(async move { tokio::time::timeout(Duration::from_secs(120), n1.shutdown()).await })
                });
                let res = tokio::time::timeout(Duration::from_secs(120), n0.shutdown()).await;
                let took = w.now_ns() - t_shutdown;
                match res {
                    Err(_) => w.violate("shutdown-hangs", format!("mix={mixdesc}"), format!("shutdown() did not return within 120 s of virtual time (idle-wait bound {idle_wait_ms} ms); in flight: {mixdesc}")),
                    Ok(r1) => {
                        shutdown_result = Some(r1.map_err(|e| format!("{e:#}")));
                        if took > bound_ns {
                            w.violate("shutdown-exceeds-idle-wait-bound", format!("mix={mixdesc}"), format!("shutdown() took {} ms, bound is shutdown_idle_timeout {idle_wait_ms} ms; in flight: {mixdesc}", took / 1_000_000));
                        }
                    }
                }
                if let Some(h) = second {
                    match tokio::time::timeout(Duration::from_secs(5), h).await {
                        Ok(Ok(Ok(r2))) => {
                            // one of the two concurrent shutdowns reports Ok - whichever request
                            // the connection manager got to first; the other gets Ok or an error
                            // (its request is dropped with the mailbox), never a hang
                            if r2.is_ok() && matches!(shutdown_result, Some(Err(_))) {
                                shutdown_result = Some(Ok(()));
                                w.probe("the-other-concurrent-shutdown-was-served");
                            }
                        }
                        Ok(Ok(Err(_))) | Err(_) => w.violate("second-shutdown-hangs", "concurrent", "a second concurrent shutdown() never returned".to_string()),
                        Ok(Err(_)) => w.violate("shutdown-task-panicked", "concurrent", "second shutdown panicked".to_string()),
                    }
                }
                desc = format!("explicit{}", if mode == 1 { "x2" } else { "" });
                if let Some(Err(e)) = &shutdown_result {
                    w.violate("shutdown-returned-error", format!("mix={mixdesc}"), format!("first shutdown() returned {e}"));
                }
            }
            2 => {
                // drop the last handle: tracked futures above hold clones only while pending, so
                // wait until those that must fail have had the chance; here we drop ours
                desc = "drop".into();
                // (handles cloned into tracked RPC/dial futures keep the network alive until they resolve)
            }
            3 => {
                w.fabric.inject_recv_error(s_addr, std::io::ErrorKind::Other);
                desc = "fatal-recv-error".into();
            }
            4 => {
                let handles = s_rt.spawned.lock().unwrap().clone();
                if let Some(h) = handles.first() {
                    h.abort();
                }
                desc = "endpoint-driver-aborted".into();
                // other tasks keep being polled for a while, as on a multi-threaded runtime that is shutting down
                sleep_ms(r.gen_range(1..50)).await;
            }
            _ => {
                desc = "runtime-teardown".into();
            }
        }
        w.event(format!("{desc}:{mixdesc}{}", if held_peer.is_some() { "+held-peer-handle" } else { "" }));
        w.probe(&format!("mode-{desc}"));
        if held_peer.is_some() { w.probe("app-keeps-peer-handle"); }
        for m in &mix { w.probe(&format!("in-flight-{m}")); }
        // ---- runtime teardown with handles alive (modes 4, 5) ----
        if mode >= 4 {
            let keep: Vec<anemo::Network> = net().into_iter().chain(peers.iter().map(|p| p.net.clone())).collect();
            let weak2 = weak.clone();
            // API calls that are pending when the runtime goes (the application awaits them from
            // somewhere that outlives it): they must come back - with an error - not stay pending
            type Pending = (&'static str, std::pin::Pin<Box<dyn std::future::Future<Output = bool>>>);
            let mut pending_calls: Vec<Pending> = Vec::new();
            if r.gen_bool(0.6) {
                if let Some(n) = net() {
                    let n2 = n.clone();
                    pending_calls.push(("shutdown", Box::pin(async move { n2.shutdown().await.is_ok() })));
                    let n3 = n.clone();
                    pending_calls.push(("connect", Box::pin(async move { n3.connect(addr(215)).await.is_ok() })));
                }
                let waker = futures::task::noop_waker();
                let mut cx = std::task::Context::from_waker(&waker);
                pending_calls.retain_mut(|(_, f)| f.as_mut().poll(&mut cx).is_pending());
                // (give the requests the time to reach the connection manager in some runs)
                if r.gen_bool(0.5) {
                    sleep_ms(r.gen_range(0..30)).await;
                    pending_calls.retain_mut(|(_, f)| f.as_mut().poll(&mut cx).is_pending());
                }
                w.probe_n("api-calls-pending-at-runtime-teardown", pending_calls.len() as u64);
            }
            let mixdesc2 = mixdesc.clone();
            after_runtime_teardown(Box::new(move || {
                let waker = futures::task::noop_waker();
                let mut cx = std::task::Context::from_waker(&waker);
                for (name, f) in pending_calls.iter_mut() {
                    if f.as_mut().poll(&mut cx).is_pending() {
                        crate::runner::late_violation("api-call-pending-at-runtime-teardown-hangs", name, format!("a {name}() call that was pending when the runtime was torn down is still pending after the runtime is gone (nothing is left that could ever complete it); in flight: {mixdesc2}"));
                    }
                }
                drop(pending_calls);
                // API calls after the runtime is gone must neither panic nor hang
                for n in &keep {
                    let _ = n.peers();
                    let _ = n.is_closed();
                    let _ = n.subscribe();
                    let _ = n.disconnect(anemo::PeerId([1; 32]));
                    let _ = n.peer(anemo::PeerId([1; 32]));
                }
                let _ = weak2.upgrade();
                drop(keep);
            }));
            w.sample("run", json!({"mode": desc, "mix": mixdesc}));
            return w.finish();
        }
        if mode == 2 {
            // drop the last handle (in-flight RPCs go through Peer handles, which do not keep the
            // network alive; the subscription and the weak reference do not either)
            *s_slot.lock().unwrap() = None;
        }
        // ---- after shutdown: release checks ----
        let explicit = mode <= 1;
        if explicit && shutdown_result.is_some() {
            let n0 = net().unwrap();
            w.check(n0.is_closed(), "not-closed-after-shutdown", desc.clone(), || "is_closed() is false after shutdown() returned".into());
            w.check(n0.peers().is_empty(), "peers-listed-after-shutdown", desc.clone(), || format!("{} peers listed after shutdown", n0.peers().len()));
            if held_peer.is_none() {
                w.check(!w.fabric.is_bound(s_addr), "socket-not-released-at-shutdown-return", format!("mix={mixdesc}"), || "the UDP address is still bound when shutdown() returns".into());
            }
            let live = clones.load(Ordering::SeqCst);
            w.check(live == 0, "service-clones-leaked", format!("mix={mixdesc}"), || format!("{live} clones of the user's service are still alive after shutdown() returned (handlers started: {})", started.load(Ordering::SeqCst)));
            w.check(weak.upgrade().is_none(), "weak-ref-upgrades-after-shutdown", desc.clone(), || "NetworkRef::upgrade() returned a handle after shutdown".into());
            sub.drain(w.now_ns());
            w.check(sub.closed, "subscription-not-ended", desc.clone(), || "a subscriber did not get end-of-stream after shutdown".into());
            w.check(sub.listed.is_empty() && sub.alternation_error.is_none(), "subscriber-missed-lostpeer", desc.clone(), || format!("after draining, the subscriber still reconstructs {} connected peers ({:?})", sub.listed.len(), sub.alternation_error));
            // API calls issued after shutdown fail instead of hanging
            let after = async {
                let a = n0.connect(peers[0].addr).await.is_err();
                let b = n0.rpc(peers[0].peer_id, Request::new(Bytes::new())).await.is_err();
                let c = n0.disconnect(peers[0].peer_id).is_err();
                let d = n0.subscribe().is_err();
                let e = n0.shutdown().await.is_err();
                let f = n0.connect_with_peer_id(peers[0].addr, peers[0].peer_id).await.is_err();
                (a, b, c, d, e, f)
            };
            match tokio::time::timeout(Duration::from_secs(30), after).await {
                Err(_) => w.violate("api-call-hangs-after-shutdown", desc.clone(), "an API call issued after shutdown did not return within 30 s".to_string()),
                Ok(flags) => {
                    w.check(flags == (true, true, true, true, true, true), "api-call-succeeds-after-shutdown", format!("{flags:?}"), || format!("(connect, rpc, disconnect, subscribe, shutdown, connect_with_peer_id) returned errors = {flags:?}"));
                }
            }
            // (with a Peer handle kept by the application the socket check comes last, so that a
            // failure there cannot mask any of the other release checks of this run)
            if held_peer.is_some() && w.fabric.is_bound(s_addr) {
                w.violate("socket-not-released-at-shutdown-return", "application-holds-a-Peer-handle", "the UDP address is still bound when shutdown() returns while the application holds a Peer handle obtained before the shutdown".to_string());
            }
            // the address can be re-bound at once and the new network is dialable
            let mut spec = w.spec(1, cfg.clone());
            spec.key = s_key;
            match w.start_node(spec, Svc::echo(&w)) {
                Err(e) => w.violate("address-not-rebindable-after-shutdown", desc.clone(), format!("{e}")),
                Ok(s2) => {
                    w.fabric.set_faults_enabled(false);
                    let ok = tokio::time::timeout(Duration::from_secs(20), peers[0].net.connect_with_peer_id(s_addr, s_id)).await;
                    w.check(matches!(ok, Ok(Ok(_))), "restarted-network-not-dialable", desc.clone(), || format!("{:?}", ok.map(|r| r.map_err(|e| format!("{e:#}")))));
                    let _ = s2.net.shutdown().await;
                }
            }
            // calls of the shut-down network itself that were pending at shutdown have resolved
            sleep_ms(50).await;
            for (name, res, _) in pending.lock().unwrap().iter() {
                if name == "inbound-dialer" || name == "rpc-in" {
                    continue; // issued by remote peers: judged below, once they can know
                }
                match res {
                    None => w.violate("api-call-pending-at-shutdown-hangs", name.clone(), format!("a {name} call that was pending when shutdown started has still not returned")),
                    Some(Ok(())) if name != "concurrent-2" && name != "concurrent-1" => {
                        w.violate("api-call-pending-at-shutdown-succeeded", name.clone(), format!("{name} returned Ok although it could not complete"));
                    }
                    _ => {}
                }
            }
            // remote peers observe the disconnect
            let t_done = w.now_ns();
            let wait_ms = if lossy { 16 * (idle_ms + ka_ms) } else { 2 * lat_max / 1000 + 50 };
            sleep_ms(wait_ms.saturating_sub((w.now_ns() - t_done) / 1_000_000)).await;
            for (i, log) in peer_logs.iter().enumerate() {
                let l = log.lock().unwrap();
                let mut listed = false;
                for (_, e) in l.iter() {
                    match e {
                        PeerEvent::NewPeer(p) if *p == s_id => listed = true,
                        PeerEvent::LostPeer(p, _) if *p == s_id => listed = false,
                        _ => {}
                    }
                }
                // (the re-dial above may have re-connected peer 0 to the restarted network)
                if listed && i != 0 {
                    w.violate("remote-did-not-observe-shutdown", if lossy { "lossy" } else { "fault-free" }, format!("peer {i} still lists the shut-down network {wait_ms} ms after shutdown returned"));
                }
            }
            // ... and by then their RPCs to it have failed
            for (name, res, _) in pending.lock().unwrap().iter() {
                if name == "rpc-in" && res.is_none() {
                    w.violate("remote-rpc-to-shut-down-network-hangs", if lossy { "lossy" } else { "fault-free" }, format!("an RPC a remote peer had in flight to the shut-down network has not returned {wait_ms} ms after shutdown"));
                }
            }
        } else if mode == 2 || mode == 3 {
            // implicit termination: everything must be released within the bound, nothing hangs
            let limit_ms = cfg.connect_timeout_ms.unwrap() + idle_wait_ms + 62_000;
            let t0 = w.now_ns();
            let mut released = false;
            while (w.now_ns() - t0) / 1_000_000 < limit_ms {
                if !w.fabric.is_bound(s_addr) && clones.load(Ordering::SeqCst) == 0 {
                    released = true;
                    break;
                }
                sleep_ms(100).await;
            }
            if held_peer.is_some() && w.fabric.is_bound(s_addr) && clones.load(Ordering::SeqCst) == 0 && mode == 2 {
                w.violate("socket-not-released-at-shutdown-return", "application-holds-a-Peer-handle", "after drop-shutdown everything was released except the UDP address, which stays bound while the application holds a Peer handle".to_string());
            } else if mode == 2 {
                w.check(released, "drop-shutdown-did-not-release", format!("mix={mixdesc}"), || format!("{} ms after the last handle was dropped the socket is bound = {}, live service clones = {}", limit_ms, w.fabric.is_bound(s_addr), clones.load(Ordering::SeqCst)));
                w.check(weak.upgrade().is_none(), "weak-ref-upgrades-after-shutdown", desc.clone(), || "NetworkRef::upgrade() after drop".into());
                sub.drain(w.now_ns());
                w.check(sub.closed && sub.listed.is_empty(), "subscription-not-ended", desc.clone(), || "subscriber not ended / missed LostPeer after drop-shutdown".into());
            } else {
                // fatal recv error: the endpoint can no longer receive; the network must not wedge:
                // API calls keep returning (errors are fine), and an explicit shutdown completes
                if let Some(n0) = net() {
                    let r1 = tokio::time::timeout(Duration::from_secs(30), n0.connect(peers[0].addr)).await;
                    w.check(r1.is_ok(), "api-call-hangs-after-endpoint-failure", "connect", || "connect() hung after the endpoint driver failed".into());
                    let r2 = tokio::time::timeout(Duration::from_secs(120), n0.shutdown()).await;
                    w.check(r2.is_ok(), "shutdown-hangs", "after-endpoint-failure", || "shutdown() hung after the endpoint driver failed".into());
                    w.check(n0.is_closed(), "not-closed-after-shutdown", "after-endpoint-failure", || "is_closed() false".into());
                    w.check(!w.fabric.is_bound(s_addr), "socket-not-released-at-shutdown-return", if held_peer.is_some() { "application-holds-a-Peer-handle" } else { "after-endpoint-failure" }, || "address still bound".into());
                }
            }
        }
        w.sample("run", json!({"mode": desc, "mix": mixdesc, "shutdown_idle_timeout_ms": idle_wait_ms, "lossy": lossy,
            "pending": pending.lock().unwrap().iter().map(|(n, r, _)| format!("{n}:{}", match r { None => "pending", Some(Ok(())) => "ok", Some(Err(_)) => "err" })).collect::<Vec<_>>()}));
        let out = w.finish();
        drop(held_peer);
        drop((peers, late_dialer, fresh_dialer));
        out
    })
}
