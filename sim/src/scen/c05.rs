//! C05 — simultaneous mutual dials converge on one shared connection.

use super::common::*;
use crate::fabric::LinkCfg;
use crate::runner::{ScenFuture, Scenario};
use crate::world::*;
use rand::Rng;
use serde_json::json;
use std::sync::Arc;
use std::time::Duration;

pub static MUTUAL: Scenario = Scenario {
    id: "C05",
    name: "c05-mutual-dial",
    run,
    quick_runs: 12_000,
    thorough_runs: 150_000,
    rule: "one run = two real Networks dialing each other with seeded dial offsets, per-datagram latencies, duplication, reordering and (in lossy configurations) loss until both dials returned; distinct = distinct order signature (sequence of dial results, NewPeer/LostPeer events per side, surviving origin); non-trivial = at least one fault fired or both dials overlapped in time",
    real: super::REAL_NET,
    stubbed: super::STUB_NET,
};

fn run(input: RunInput) -> ScenFuture {
    Box::pin(async move {
        let lossy = {
            // fault-free (delay/dup/reorder only) and lossy configurations are separate
            crate::choice::Choice::new(input.seed).stream("cfg:lossy-class").gen_bool_compat(0.4)
        };
        let w = World::new(&input, LinkCfg::clean(500, 30_000));
        let lossy = w.flag("lossy", if lossy { 1.0 } else { 0.0 });
        let lat_max = w.param("lat_max_us", 600, 40_000) as u64;
        let dup = w.param("dup_pct", 0, 15) as f64 / 100.0;
        let drop_p = if lossy { w.param("drop_pct", 1, 25) as f64 / 100.0 } else { 0.0 };
        let mut link = LinkCfg::clean(300, lat_max);
        link.dup = dup;
        link.drop = drop_p;
        w.fabric.set_default_link(link);

        let idle_ms = w.param("idle_ms", 3000, 9000) as u64;
        let ka_ms = w.param("keepalive_ms", 500, idle_ms as i64 / 3) as u64;
        let mut cfg = base_config(idle_ms, Some(ka_ms));
        cfg.connect_timeout_ms = Some(w.param("connect_timeout_ms", 1500, 5000) as u64);

        // a connection limit on either side must not keep a mutual dial from converging: the pair
        // counts once, and an inbound connection that merely duplicates an existing one adds nothing
        let lim_a = w.flag("limit_on_a", 0.25).then(|| w.param("limit_a", 1, 2) as usize);
        let lim_b = w.flag("limit_on_b", 0.25).then(|| w.param("limit_b", 1, 2) as usize);
        let limited = lim_a.is_some() || lim_b.is_some();
        let mut cfg_a = cfg.clone();
        cfg_a.max_concurrent_connections = lim_a;
        let mut cfg_b = cfg.clone();
        cfg_b.max_concurrent_connections = lim_b;
        // ... nor must the bound on a node's own outstanding dials: it postpones dials, it has no
        // say over connections coming in while one's own dial is under way
        if w.flag("small_bound_on_outstanding_dials", 0.3) {
            cfg_a.max_concurrent_outstanding_connecting_connections = Some(w.param("outstanding_a", 1, 2) as usize);
            cfg_b.max_concurrent_outstanding_connecting_connections = Some(w.param("outstanding_b", 1, 2) as usize);
        }
        let svc_a = Svc::echo(&w);
        let ha = svc_a.handle();
        let a = w.start_node(w.spec(1, cfg_a), svc_a).unwrap();
        let svc_b = Svc::echo(&w);
        let hb = svc_b.handle();
        let b = w.start_node(w.spec(2, cfg_b), svc_b).unwrap();
        // what either side has in its known-peer table about the other (High or Allowed, with or
        // without address) has no say in which connection survives
        w.vary_known_peers(&a, &[(b.peer_id, Some(b.addr))], true);
        w.vary_known_peers(&b, &[(a.peer_id, Some(a.addr))], true);
        let mut sa = Subscription::new(&a.net).unwrap();
        let mut sb = Subscription::new(&b.net).unwrap();
        // events of both sides enter the order signature in the order they are published
        watch_events(&w, &a);
        watch_events(&w, &b);

        // an application that uses a connection the moment it is announced: a request goes out over
        // whichever connection registers first - possibly the one that is about to lose - and its
        // handler on the other side may be CPU-bound for a while (it cannot be dropped meanwhile)
        // (some of these requests are long polls: one sent over the connection that loses ends with
        // that connection - on both sides; pending[k] counts the calls of side k still pending)
        let pending = [Arc::new(std::sync::atomic::AtomicI64::new(0)), Arc::new(std::sync::atomic::AtomicI64::new(0))];
        let eager = w.flag("eager_application", 0.4);
        if eager {
            for (k, (me, other)) in [(a.net.clone(), b.peer_id), (b.net.clone(), a.peer_id)].into_iter().enumerate() {
                let Ok((mut rx, _)) = me.subscribe() else { continue };
                let mut re = w.rng(&format!("wl:eager{k}"));
                let w2 = w.clone();
                let pend = pending[k].clone();
                tokio::spawn(async move {
                    while let Ok(ev) = rx.recv().await {
                        if matches!(ev, anemo::types::PeerEvent::NewPeer(p) if p == other) {
                            let hold: u64 = if re.gen_bool(0.6) { re.gen_range(20..600) } else { 0 };
                            let delay: u64 = if re.gen_bool(0.5) { 600_000 } else { 0 };
                            let me2 = me.clone();
                            let pend = pend.clone();
                            w2.probe("request-over-the-first-connection-announced");
                            tokio::spawn(async move {
                                pend.fetch_add(1, std::sync::atomic::Ordering::SeqCst);
                                let _ = me2.rpc(other, anemo::Request::new(bytes::Bytes::from_static(b"eager")).with_header("x-hold-ms", hold.to_string()).with_header("x-delay-ms", delay.to_string())).await;
                                pend.fetch_sub(1, std::sync::atomic::Ordering::SeqCst);
                            });
                        }
                    }
                });
            }
        }
        // the caller of one of the two dials may abandon its call (drop the future) at any moment:
        // the dial is the network's business from the moment it was requested
        let abandon = w.flag("a_dial_is_abandoned_by_its_caller", 0.2).then(|| (w.flag("abandoning_side_is_a", 0.5), w.param("abandoned_after_us", 0, 30_000) as u64));
        let off_a = w.param("dial_offset_a_us", 0, 40_000) as u64;
        let off_b = w.param("dial_offset_b_us", 0, 40_000) as u64;
        // "never on arrival order": a dial-back that comes seconds later follows the same rule
        let (off_a, off_b) = if w.flag("late_dial_back", 0.2) {
            let late = w.param("late_by_ms", 200, 12_000) as u64 * 1000;
            if w.flag("late_side_is_a", 0.5) { (off_a + late, off_b) } else { (off_a, off_b + late) }
        } else {
            (off_a, off_b)
        };
        let with_id = w.flag("dial_with_peer_id", 0.5);

        let fa = async {
            sleep_us(off_a).await;
            let call = async {
                if with_id {
                    a.net.connect_with_peer_id(b.addr, b.peer_id).await
                } else {
                    a.net.connect(b.addr).await
                }
            };
            let r = match abandon {
                Some((true, us)) => tokio::time::timeout(Duration::from_micros(us), call).await.unwrap_or_else(|_| Err(anyhow::anyhow!("abandoned by the caller"))),
                _ => call.await,
            };
            w.event(format!("dial a>b {}", if r.is_ok() { "ok" } else { "err" }));
            r
        };
        let fb = async {
            sleep_us(off_b).await;
            let call = async {
                if with_id {
                    b.net.connect_with_peer_id(a.addr, a.peer_id).await
                } else {
                    b.net.connect(a.addr).await
                }
            };
            let r = match abandon {
                Some((false, us)) => tokio::time::timeout(Duration::from_micros(us), call).await.unwrap_or_else(|_| Err(anyhow::anyhow!("abandoned by the caller"))),
                _ => call.await,
            };
            w.event(format!("dial b>a {}", if r.is_ok() { "ok" } else { "err" }));
            r
        };
        let (ra, rb) = futures::future::join(fa, fb).await;
        w.mark_overlap();
        // "once the network is quiet": loss stops when both dials have returned.
        w.fabric.set_faults_enabled(false);
        if let Ok(p) = &ra {
            w.check(*p == b.peer_id, "dial-returned-wrong-id", "a>b", || "a's dial returned another identity".into());
        }
        if let Ok(p) = &rb {
            w.check(*p == a.peer_id, "dial-returned-wrong-id", "b>a", || "b's dial returned another identity".into());
        }
        let abandoned = |r: &anyhow::Result<anemo::PeerId>| r.as_ref().err().map(|e| e.to_string() == "abandoned by the caller").unwrap_or(false);
        if abandoned(&ra) || abandoned(&rb) {
            w.probe("dial-abandoned-by-its-caller");
        }
        // (with a limit the later of two staggered dials is legitimately refused: the pair is
        // already connected and the listener is full)
        if !lossy && limited {
            w.check(ra.is_ok() || rb.is_ok() || abandoned(&ra) || abandoned(&rb), "dial-failed-without-loss", "mutual-limited", || "both dials of a mutual dial were refused".into());
        }
        if !lossy && !limited {
            w.check((ra.is_ok() || abandoned(&ra)) && (rb.is_ok() || abandoned(&rb)), "dial-failed-without-loss", "mutual", || {
                format!("a dial failed although no datagram was lost: a>b={:?} b>a={:?}", ra.as_ref().err().map(|e| e.to_string()), rb.as_ref().err().map(|e| e.to_string()))
            });
        }
        // quiet period: every in-flight close has arrived or the idle timer has fired
        let quiet_ms = if lossy { idle_ms + ka_ms + cfg.connect_timeout_ms.unwrap() + 500 } else { 2000.min(idle_ms / 2) + 10 * lat_max / 1000 };
        sleep_ms(quiet_ms).await;
        sa.drain(w.now_ns());
        sb.drain(w.now_ns());
        for (n, s) in [("a", &sa), ("b", &sb)] {
            let _ = n;
            if let Some(e) = &s.alternation_error {
                w.violate("event-alternation", n, e.clone());
            }
            if s.lagged {
                w.harness_error("subscription lagged");
            }
        }
        let pa = sorted(a.net.peers());
        let pb = sorted(b.net.peers());
        w.check(pa == sa.listed_sorted() && pb == sb.listed_sorted(), "events-vs-listing", "quiescence", || {
            "snapshot + events do not reproduce peers()".into()
        });
        let a_lists = pa.contains(&b.peer_id);
        let b_lists = pb.contains(&a.peer_id);
        w.check(pa.len() <= 1 && pb.len() <= 1, "duplicate-listing", "quiescence", || format!("a lists {} peers, b lists {}", pa.len(), pb.len()));
        w.check(a_lists == b_lists, "views-not-mutual", "quiescence", || format!("after quiet period a lists b = {a_lists}, b lists a = {b_lists}"));
        // a long poll that went out over the connection that lost has ended with it, on both sides:
        // as many handlers are still running at one node as the other node has calls pending
        if eager && !lossy {
            let (at_b, from_a) = (hb.inflight(), pending[0].load(std::sync::atomic::Ordering::SeqCst));
            let (at_a, from_b) = (ha.inflight(), pending[1].load(std::sync::atomic::Ordering::SeqCst));
            w.check(at_b <= from_a && at_a <= from_b, "handler-outlives-its-connection", "quiescence", || format!("after the quiet period {at_b} handlers are running at b while a has {from_a} calls pending, and {at_a} at a while b has {from_b} pending: a request served over the connection that lost is still being worked on"));
        }
        // (an abandoned dial may or may not have been carried out: which connection survives is only
        // judged when both calls returned Ok)
        let both_ok = ra.is_ok() && rb.is_ok();
        if !lossy {
            w.check(a_lists && b_lists, "not-connected-after-mutual-dial", "quiescence", || {
                format!("both dials returned Ok without loss but a lists b = {a_lists}, b lists a = {b_lists}")
            });
        }
        if a_lists && b_lists {
            let bound = Duration::from_secs(5);
            let r1 = probe(&w, &a, b.peer_id, 1, bound).await;
            let r2 = probe(&w, &b, a.peer_id, 2, bound).await;
            w.check(r1.is_ok() && r2.is_ok(), "rpc-fails-after-convergence", "quiescence", || format!("a>b {r1:?}  b>a {r2:?}"));
            // which connection survived: B's handler saw the origin of the connection at B
            if let Some(seen) = hb.seen().last() {
                let origin_at_b = seen.origin;
                let greater_is_b = b.peer_id > a.peer_id;
                let expect = if greater_is_b { anemo::ConnectionOrigin::Outbound } else { anemo::ConnectionOrigin::Inbound };
                w.event(format!("survivor dialed by {}", if origin_at_b == Some(anemo::ConnectionOrigin::Outbound) { "b" } else { "a" }));
                if both_ok && !lossy {
                    w.check(origin_at_b == Some(expect), "wrong-survivor", "tie-break", || {
                        format!("both dials succeeded; surviving connection at b has origin {origin_at_b:?}, expected {expect:?} (b greater = {greater_is_b})")
                    });
                }
                if origin_at_b == Some(anemo::ConnectionOrigin::Outbound) { w.probe("survivor-dialed-by-b"); } else { w.probe("survivor-dialed-by-a"); }
            }
        } else {
            w.probe("not-connected-at-quiescence(lossy)");
        }
        // further window: no event for the pair
        let n_a = sa.history.len();
        let n_b = sb.history.len();
        sleep_ms(3 * ka_ms + 50).await;
        sa.drain(w.now_ns());
        sb.drain(w.now_ns());
        w.check(sa.history.len() == n_a && sb.history.len() == n_b, "events-after-quiescence", "window", || {
            format!("events arrived after the quiet period: a {:?} b {:?}", &sa.history[n_a..], &sb.history[n_b..])
        });
        w.check(sorted(a.net.peers()) == pa && sorted(b.net.peers()) == pb, "listing-changed-after-quiescence", "window", || "peers() changed".into());
        if sa.history.len() > 1 { w.probe("a-saw-replacement-or-loss"); }
        if sb.history.len() > 1 { w.probe("b-saw-replacement-or-loss"); }
        if !(ra.is_ok() && rb.is_ok()) { w.probe("a-dial-failed-under-loss"); }
        w.sample("dials", json!({"a>b": ra.is_ok(), "b>a": rb.is_ok(), "lossy": lossy}));
        let out = w.finish();
        drop((a, b));
        out
    })
}

trait GenBoolCompat {
    fn gen_bool_compat(self, p: f64) -> bool;
}
impl GenBoolCompat for rand::rngs::StdRng {
    fn gen_bool_compat(mut self, p: f64) -> bool {
        use rand::Rng;
        self.gen_bool(p)
    }
}
