//! C03 — dialing with an expected identity only ever reaches that identity.

use super::common::*;
use crate::adversary::*;
use crate::fabric::LinkCfg;
use crate::model::wire;
use crate::runner::{ScenFuture, Scenario};
use crate::world::*;
use anemo::types::PeerEvent;
use anemo::PeerId;
use rand::Rng;
use serde_json::json;
use std::net::SocketAddr;
use std::sync::{Arc, Mutex};

pub static EXPECTED: Scenario = Scenario {
    id: "C03",
    name: "c03-address-book",
    run,
    quick_runs: 15_000,
    thorough_runs: 200_000,
    rule: "one run = a caller Network and an address book of 6 addresses hosting the expected peer E, another honest identity O, an impostor replaying E's certificate with a foreign key (acknowledgement implemented), a party with its own key presenting E's certificate behind its own in the chain, the caller's own address, and nobody; 2-7 concurrent connect / connect_with_peer_id calls at PRNG instants under PRNG handshake loss, duplication and corruption; distinct = distinct order signature (per call: target kind, expectation, result; events on caller, E and O); non-trivial = every run with a mismatching dial or a fault",
    real: super::REAL_NET,
    stubbed: super::STUB_NET,
};

#[derive(Clone, Copy, Debug, PartialEq)]
enum Target {
    E,
    O,
    Impostor,
    /// holds its own key M and presents the chain [cert(M), cert(E)]
    Chain,
    /// the caller's own address: the party reached is the caller itself
    Own,
    Nobody,
    /// holds its own key F, names E (as text) as the common name of its certificate, and hangs
    /// up right after its version frame in half of the connections it accepts
    Flaky,
}

fn run(input: RunInput) -> ScenFuture {
    Box::pin(async move {
        let w = World::new(&input, LinkCfg::clean(200, 10_000));
        let lossy = w.flag("lossy", 0.4);
        let e_online = w.flag("e_online", 0.7);
        let o_plain_ok = w.flag("o_dialed_plainly", 0.5);
        let n_calls = w.param("calls", 1, if w.tier == Tier::Quick { 7 } else { 20 }) as usize;
        let spread_us = w.param("spread_us", 0, 60_000) as u64;
        let mut cfg = base_config(6_000, Some(1_500));
        let connect_timeout_ms = w.param("connect_timeout_ms", 800, 3_000) as u64;
        cfg.connect_timeout_ms = Some(connect_timeout_ms);
        // the path to a target may be dead for the first part of a dial (more than half of the
        // connect timeout) and work afterwards: whatever the dial does about its first flights
        // going unanswered, whoever answers in the end is checked like at the start
        let blackouts = w.flag("path_dead_during_the_first_part_of_a_dial", 0.25);
        let mut r_black = w.rng("wl:blackouts");
        let c_svc = Svc::echo(&w);
        let c_handle = c_svc.handle();
        let c = Arc::new(w.start_node(w.spec(1, cfg.clone()), c_svc).unwrap());
        let ke = w.key_for(2);
        let e_id = public_key(&ke);
        w.name_peer(e_id, "E");
        let e_svc = Svc::echo(&w);
        let e_handle = e_svc.handle();
        let e = if e_online { Some(w.start_node(w.spec(2, cfg.clone()), e_svc).unwrap()) } else { None };
        let o_svc = Svc::echo(&w);
        let o_handle = o_svc.handle();
        let o = w.start_node(w.spec(3, cfg.clone()), o_svc).unwrap();
        w.name_peer(o.peer_id, "O");
        let k_imp = w.key_for(9);
        let imp = adv_endpoint(&w, AdvSpec {
            idx: 9, port: 7000, chain: vec![gen_cert(&ke, "sim")], sign_key: k_imp, present_client_cert: true,
            idle_ms: 6_000, keep_alive_ms: Some(1_500), max_bidi: 100,
        });
        // a party with a key of its own (M) that presents E's certificate *behind* its own one:
        // whatever is reached there is M, never E
        let km = w.key_for(8);
        let m_id = public_key(&km);
        w.name_peer(m_id, "M");
        let chain_ep = adv_endpoint(&w, AdvSpec {
            idx: 8, port: 7000, chain: vec![gen_cert(&km, "sim"), gen_cert(&ke, "sim")], sign_key: km, present_client_cert: true,
            idle_ms: 6_000, keep_alive_ms: Some(1_500), max_bidi: 100,
        });
        let kf = w.key_for(7);
        let f_id = public_key(&kf);
        w.name_peer(f_id, "F");
        let flaky_ep = adv_endpoint(&w, AdvSpec {
            idx: 7, port: 7000, chain: vec![gen_cert_common_name(&kf, "sim", &format!("{e_id}"))], sign_key: kf, present_client_cert: true,
            idle_ms: 6_000, keep_alive_ms: Some(1_500), max_bidi: 100,
        });
        {
            let ep = flaky_ep.ep.clone();
            let mut rf = w.rng("adv:flaky");
            tokio::spawn(async move {
                while let Some(inc) = ep.accept().await {
                    let hang_up = rf.gen_bool(0.5);
                    tokio::spawn(async move {
                        if let Ok(conn) = inc.await {
                            if let Ok(mut s) = conn.open_uni().await {
                                let _ = s.write_all(&wire::preamble(1)).await;
                                let _ = s.finish();
                                if hang_up {
                                    // (the frame is on its way; the close follows it a fraction of a
                                    // millisecond later, in a datagram of its own: the two tend to
                                    // be picked up together at the other end)
                                    tokio::time::sleep(std::time::Duration::from_micros(200)).await;
                                    conn.close(0u32.into(), b"");
                                    return;
                                }
                                let _ = s.stopped().await;
                            }
                            conn.closed().await;
                        }
                    });
                }
            });
        }
        let imp_accepted = Arc::new(Mutex::new(0u32));
        for (ep, counted) in [(imp.ep.clone(), true), (chain_ep.ep.clone(), false)] {
            // the impostor implements the acknowledgement, so only TLS stands between it and success
            let acc = imp_accepted.clone();
            tokio::spawn(async move {
                while let Some(inc) = ep.accept().await {
                    let acc = acc.clone();
                    tokio::spawn(async move {
                        if let Ok(conn) = inc.await {
                            if counted {
                                *acc.lock().unwrap() += 1;
                            }
                            if let Ok(mut s) = conn.open_uni().await {
                                let _ = s.write_all(&wire::preamble(1)).await;
                                let _ = s.finish();
                                let _ = s.stopped().await;
                            }
                            conn.closed().await;
                        }
                    });
                }
            });
        }
        // known-peer entries must not change what an explicit dial does (affinity governs inbound
        // admission and background dialing only): the caller may know any party under any affinity,
        // the listeners know the caller as High or Allowed
        let parties = [(e_id, Some(addr(2))), (o.peer_id, Some(o.addr)), (m_id, Some(chain_ep.addr)), (public_key(&k_imp), Some(imp.addr))];
        let kp = w.vary_known_peers(&c, &parties, false);
        w.vary_known_peers(&o, &[(c.peer_id, Some(c.addr))], true);
        if let Some(e) = e.as_ref() {
            w.vary_known_peers(e, &[(c.peer_id, Some(c.addr))], true);
        }
        let mut sub_c = Subscription::new(&c.net).unwrap();
        let mut sub_o = Subscription::new(&o.net).unwrap();
        let mut sub_e = e.as_ref().and_then(|e| Subscription::new(&e.net));
        let mut link = LinkCfg::clean(200, 10_000);
        if lossy {
            link.drop = w.param("drop_pct", 1, 20) as f64 / 100.0;
            link.dup = w.param("dup_pct", 0, 8) as f64 / 100.0;
            link.corrupt = w.param("corrupt_pct", 0, 3) as f64 / 100.0;
            link.truncate = w.param("truncate_pct", 0, 3) as f64 / 100.0;
        }
        w.fabric.set_default_link(link);

        let addr_of = |t: Target| -> SocketAddr {
            match t {
                Target::E => addr(2),
                Target::O => o.addr,
                Target::Impostor => imp.addr,
                Target::Chain => chain_ep.addr,
                Target::Own => c.addr,
                Target::Flaky => flaky_ep.addr,
                Target::Nobody => addr(77),
            }
        };
        let mut r = w.rng("wl:calls");
        let mut plan = Vec::new();
        for _ in 0..n_calls {
            let t = [Target::E, Target::O, Target::Impostor, Target::Nobody, Target::Chain, Target::Own, Target::Flaky][r.gen_range(0..7)];
            // expectation: Some(E) / Some(O) / None (plain connect) / sometimes Some(M)
            let expect: Option<PeerId> = match r.gen_range(0..3) {
                0 => None,
                1 => Some(e_id),
                _ => Some(o.peer_id),
            };
            let expect = if t == Target::Chain && r.gen_bool(0.4) { Some(m_id) } else { expect };
            let expect = if t == Target::Own && r.gen_bool(0.4) { Some(c.peer_id) } else { expect };
            // keep O unconnected from C in runs that use it as a mismatch-only target
            let expect = if t == Target::O && !o_plain_ok { Some(e_id) } else { expect };
            // an expectation that is *almost* the identity that lives there: one byte off, anywhere
            let expect = if r.gen_bool(0.15) {
                let real = match t { Target::E => Some(e_id), Target::O => Some(o.peer_id), Target::Chain => Some(m_id), _ => None };
                match real {
                    Some(mut p) => {
                        p.0[r.gen_range(0..32)] ^= 1 << r.gen_range(0..8);
                        w.name_peer(p, "near-miss");
                        w.probe("expectation-one-bit-off");
                        Some(p)
                    }
                    None => expect,
                }
            } else {
                expect
            };
            plan.push((t, expect, if spread_us == 0 { 0 } else { r.gen_range(0..=spread_us) }));
        }
        let mut retired_nodes = Vec::new();
        let results: Arc<Mutex<Vec<(usize, Result<PeerId, String>, bool)>>> = Default::default();
        let mut futs = Vec::new();
        let mut blacked_out: std::collections::BTreeSet<usize> = Default::default();
        for (i, (t, expect, off)) in plan.iter().copied().enumerate() {
            let (c2, w2, results) = (c.clone(), w.clone(), results.clone());
            let a = addr_of(t);
            let blackout_ms = if blackouts && t != Target::Nobody && t != Target::Own && r_black.gen_bool(0.4) { connect_timeout_ms * r_black.gen_range(50..90) / 100 } else { 0 };
            if blackout_ms > 0 {
                blacked_out.insert(i);
            }
            futs.push(async move {
                sleep_us(off).await;
                if blackout_ms > 0 {
                    w2.fabric.partition(c2.addr, a);
                    let (w3, ca) = (w2.clone(), c2.addr);
                    tokio::spawn(async move {
                        sleep_ms(blackout_ms).await;
                        w3.fabric.heal(ca, a);
                    });
                    w2.probe("dial-with-a-dead-path-at-first");
                }
                let res = match expect {
                    Some(p) => c2.net.connect_with_peer_id(a, p).await,
                    None => c2.net.connect(a).await,
                };
                // "in the caller's connected set at some instant before the call returns": the
                // NewPeer event has already been published (or the peer is listed right now)
                let listed_now = res.as_ref().map(|p| c2.net.peers().contains(p)).unwrap_or(false);
                w2.event(format!("call{i}:{t:?}:{}:{}", expect.map(|p| w2.pname(&p)).unwrap_or_else(|| "any".into()), res.as_ref().map(|p| w2.pname(p)).unwrap_or_else(|_| "err".into())));
                results.lock().unwrap().push((i, res.map_err(|e| format!("{e:#}")), listed_now));
            });
        }
        futures::future::join_all(futs).await;
        w.mark_overlap();
        w.fabric.set_faults_enabled(false);
        sub_c.drain(w.now_ns());
        let announced_c: Vec<PeerId> = sub_c.history.iter().filter_map(|e| if let PeerEvent::NewPeer(p) = &e.ev { Some(*p) } else { None }).collect();
        let holder = |t: Target| -> Option<PeerId> {
            match t {
                Target::E => e_online.then_some(e_id),
                Target::O => Some(o.peer_id),
                Target::Chain => Some(m_id),
                Target::Own => Some(c.peer_id),
                Target::Flaky => Some(f_id),
                _ => None,
            }
        };
        let results = results.lock().unwrap().clone();
        for (i, res, listed_now) in &results {
            let (t, expect, _) = plan[*i];
            let key = format!("target={t:?} expect={}", expect.map(|p| w.pname(&p)).unwrap_or_else(|| "any".into()));
            match res {
                Ok(p) => {
                    if let Some(x) = expect {
                        // (byte for byte: not through the library's own notion of equality)
                        w.check(p.0 == x.0, "dial-returned-other-than-expected-identity", key.clone(), || format!("call {i} expected {} and returned Ok({})", w.pname(&x), w.pname(p)));
                    }
                    w.check(holder(t).map(|h| h.0) == Some(p.0), "dial-succeeded-with-identity-the-endpoint-does-not-hold", key.clone(), || {
                        format!("call {i} to {t:?} returned Ok({}) but the endpoint there holds {:?}", w.pname(p), holder(t).map(|h| w.pname(&h)))
                    });
                    w.check(announced_c.contains(p) || *listed_now, "dial-ok-but-never-listed", key.clone(), || format!("call {i} returned Ok({}) but the caller never listed or announced that peer before the return", w.pname(p)));
                }
                Err(e) => {
                    // (a dial whose path was dead at first - or that shared its target with such a
                    // dial - may legitimately run into its connect timeout)
                    let shared_blackout = blacked_out.iter().any(|j| plan[*j].0 == t);
                    if !lossy && !shared_blackout {
                        // fault-free: a dial to the right party with a matching (or no) expectation succeeds
                        // (whether a chain of several certificates is acceptable at all is not this
                        // property's business: no success is demanded there)
                        let should = t != Target::Chain && t != Target::Own && t != Target::Flaky && holder(t).map(|h| expect.map(|x| x == h).unwrap_or(true)).unwrap_or(false);
                        w.check(!should, "matching-dial-failed-without-loss", key.clone(), || format!("call {i} failed: {e}"));
                    }
                }
            }
        }
        // ---- an address changes hands while its former holder is still listed: the caller is
        //      connected to Y at address A, Y vanishes without a word (no close reaches the caller,
        //      so Y stays listed until the idle timeout), Z comes up on A. A dial of A reaches Z:
        //      naming Y it fails, naming nobody it returns Z - whatever the caller still holds
        //      "to that address" ----
        let mut takeover_ids = Vec::new();
        if !w.violated() && w.flag("address_changes_hands_while_the_old_holder_is_listed", 0.3) {
            let y = w.start_node(w.spec(5, cfg.clone()), Svc::echo(&w)).unwrap();
            let (y_id, a_y) = (y.peer_id, y.addr);
            w.name_peer(y_id, "Y");
            takeover_ids.push(y_id);
            if c.net.connect(a_y).await.ok() == Some(y_id) {
                w.fabric.isolate(a_y);
                let _ = tokio::time::timeout(std::time::Duration::from_secs(30), y.net.shutdown()).await;
                drop(y);
                sleep_ms(20).await;
                let still_listed = c.net.peers().contains(&y_id);
                let mut spec = w.spec(5, cfg.clone());
                spec.key = w.key_for(6);
                if !w.fabric.is_bound(a_y) {
                    let z = w.start_node(spec, Svc::echo(&w)).unwrap();
                    w.name_peer(z.peer_id, "Z");
                    takeover_ids.push(z.peer_id);
                    w.fabric.heal_all();
                    let pinned = c.net.connect_with_peer_id(a_y, y_id).await;
                    w.check(pinned.is_err(), "dial-succeeded-with-identity-the-endpoint-does-not-hold", "target=taken-over-address expect=Y", || format!("a dial of Y's former address naming Y returned {:?} although Z answers there now (Y still listed: {still_listed})", pinned.as_ref().map(|p| w.pname(p)).map_err(|e| format!("{e:#}"))));
                    match c.net.connect(a_y).await {
                        Ok(p) => {
                            w.check(p == z.peer_id, "dial-succeeded-with-identity-the-endpoint-does-not-hold", "target=taken-over-address expect=any", || format!("a plain dial of Y's former address returned Ok({}) but the endpoint there holds Z (Y still listed: {still_listed})", w.pname(&p)));
                            w.check(c.net.peers().contains(&z.peer_id), "dial-ok-but-never-listed", "target=taken-over-address expect=any", || "the caller does not list Z after dialing it successfully".to_string());
                        }
                        Err(e) if !lossy => w.violate("matching-dial-failed-without-loss", "target=taken-over-address expect=any", format!("{e:#}")),
                        Err(_) => {}
                    }
                    if still_listed {
                        w.probe("address-taken-over-while-old-holder-listed");
                    }
                    retired_nodes.push(z);
                }
            }
        }
        // nobody is listed, announced or served because of a mismatching or impostor dial
        sleep_ms(6_000 + 1_500 + 500).await;
        sub_c.drain(w.now_ns());
        sub_o.drain(w.now_ns());
        let c_touched_o = sub_c.history.iter().any(|e| matches!(&e.ev, PeerEvent::NewPeer(p) if *p == o.peer_id));
        let o_touched_c = sub_o.history.iter().any(|e| matches!(&e.ev, PeerEvent::NewPeer(p) if *p == c.peer_id));
        let o_legit = plan.iter().any(|(t, x, _)| *t == Target::O && x.map(|x| x == o.peer_id).unwrap_or(true));
        if !o_legit {
            w.check(!c_touched_o && !o_touched_c, "mismatching-dial-left-a-connection", "O", || format!("no dial to O could legitimately succeed, yet caller announced O = {c_touched_o}, O announced caller = {o_touched_c}"));
            w.check(o_handle.seen().is_empty() && !c_handle.seen().iter().any(|s| s.peer == Some(o.peer_id)), "mismatching-dial-got-served", "O", || "a handler ran between caller and O".into());
        }
        let e_legit = e_online && plan.iter().any(|(t, x, _)| *t == Target::E && x.map(|x| x == e_id).unwrap_or(true));
        let c_touched_e = sub_c.history.iter().any(|e| matches!(&e.ev, PeerEvent::NewPeer(p) | PeerEvent::LostPeer(p, _) if *p == e_id));
        if !e_legit {
            w.check(!c_touched_e, "identity-listed-without-a-matching-dial", "E", || "caller announced E although no dial could legitimately reach E (impostor / mismatch only)".into());
            if let Some(se) = sub_e.as_mut() {
                se.drain(w.now_ns());
                w.check(se.history.is_empty() && e_handle.seen().is_empty(), "mismatching-dial-left-a-connection", "E", || format!("E saw events {:?}", se.history.iter().map(|e| &e.ev).collect::<Vec<_>>()));
            }
        }
        if *imp_accepted.lock().unwrap() > 0 { w.probe("impostor-saw-completed-tls(plain-connect)"); }
        for p in c.net.peers() {
            w.check(Some(p) == e_online.then_some(e_id) || p == o.peer_id || p == m_id || p == f_id || p == c.peer_id || takeover_ids.contains(&p), "listed-identity-nobody-holds", w.pname(&p), || "caller lists an identity that no reachable endpoint holds".into());
        }
        w.sample("known_peers_of_caller", json!(kp.iter().map(|(p, a)| format!("{}={a}", w.pname(p))).collect::<Vec<_>>()));
        w.sample("calls", json!({"e_online": e_online, "lossy": lossy, "calls": results.iter().map(|(i, r, _)| json!({"target": format!("{:?}", plan[*i].0), "expect": plan[*i].1.map(|p| w.pname(&p)), "result": r.as_ref().map(|p| w.pname(p)).map_err(|e| e.chars().take(60).collect::<String>())})).collect::<Vec<_>>()}));
        let out = w.finish();
        drop((c, e, o, imp, chain_ep, flaky_ep, retired_nodes));
        out
    })
}
