//! C15 — message size limits are exact, symmetric and confined to the RPC.

use super::c02::body_for;
use super::common::*;
use crate::fabric::LinkCfg;
use crate::runner::{ScenFuture, Scenario};
use crate::world::*;
use anemo::{Request, Response};
use bytes::Bytes;
use rand::Rng;
use serde_json::json;
use std::sync::Arc;
use std::time::Duration;

pub static LIMITS: Scenario = Scenario {
    id: "C15",
    name: "c15-frame-limits",
    run,
    quick_runs: 12_000,
    thorough_runs: 150_000,
    rule: "one run = caller and callee Networks with max_frame_size placed on {caller, callee, both, neither} (values 24 B..256 KiB), 4-16 RPCs whose request/response header frame and body sizes sit at limit-2..limit+2 of either limit (header frame sizes computed by the reference encoder) or are random, each followed by a small follow-up RPC; a rare class sends 8 MiB-1 / 8 MiB / 8 MiB+1 with no limit configured; distinct = distinct order signature over per-RPC (which frame vs which limit, outcome); non-trivial = at least one frame exceeded a limit or sat exactly on it",
    real: super::REAL_NET,
    stubbed: super::STUB_NET,
};

const REQ_BASE: usize = 8 + 8; // route length prefix + header-map count
const PAD_ENTRY: usize = 8 + 1 + 8; // key "p" + value length prefix
const RESP_BASE: usize = 2 + 8;

fn parse_route(route: &str) -> (u64, usize, Option<usize>) {
    // /n<nonce>/b<resp body len>/h<resp header pad or ->
    let mut it = route.split('/').skip(1);
    let n = it.next().and_then(|s| s[1..].parse().ok()).unwrap_or(0);
    let b = it.next().and_then(|s| s[1..].parse().ok()).unwrap_or(0);
    let h = it.next().and_then(|s| s[1..].parse().ok());
    (n, b, h)
}

/// status the handler answers with: optional 4th segment `/s<code>` of the route
fn route_status(route: &str) -> u16 {
    route.split('/').nth(4).and_then(|s| s.strip_prefix('s')).and_then(|s| s.parse().ok()).unwrap_or(200)
}

fn near(r: &mut impl Rng, limits: &[usize], floor: usize) -> (usize, bool) {
    if limits.is_empty() || r.gen_bool(0.25) {
        return (floor + r.gen_range(0..64), false);
    }
    let l = limits[r.gen_range(0..limits.len())];
    // (next to a limit beyond 32 bits there is nothing to send: sizes around its low 32 bits instead)
    if l > (1 << 30) {
        return ((l & 0xffff_ffff).max(floor) + r.gen_range(0..3usize), false);
    }
    let d: i64 = r.gen_range(-2..=2);
    let v = (l as i64 + d).max(floor as i64) as usize;
    (v, true)
}

fn run(input: RunInput) -> ScenFuture {
    Box::pin(async move {
        let w = World::new(&input, LinkCfg::clean(200, 2_000));
        let class8m = w.flag("boundary_8mib", if w.tier == Tier::Quick { 0.004 } else { 0.002 });
        let place = if class8m { 0 } else { w.param("placement", 0, 3) };
        // the caller built with a user outbound layer that adds a header on the way out: what goes
        // on the wire is what the limits apply to
        let added = if !class8m && w.flag("caller_outbound_layer_adds_a_header", 0.25) { w.param("added_header_bytes", 1, 300) as usize } else { 0 };
        let added_entry = if added > 0 { 8 + "x-added".len() + 8 + added } else { 0 };
        let mut lr = w.rng("cfg:limits");
        let mut pick = |r: &mut rand::rngs::StdRng| match r.gen_range(0..25) {
            // (a limit beyond what the 4-byte length field can express is a limit like any other:
            // nothing the scenario sends comes near it)
            24 => (1usize << 32) + r.gen_range(0..3000usize),
            x if x % 4 == 0 => r.gen_range(40..64usize),
            x if x % 4 == 1 => r.gen_range(64..2000),
            x if x % 4 == 2 => r.gen_range(2000..70_000),
            _ => r.gen_range(70_000..262_144),
        };
        // (every limit leaves room for the small follow-up request, added header included)
        let lc = (place & 1 != 0).then(|| pick(&mut lr) + added_entry);
        let ls = (place & 2 != 0).then(|| pick(&mut lr) + added_entry);
        let n_rpcs = if class8m { 3 } else { w.param("rpcs", 1, if w.tier == Tier::Quick { 40 } else { 100 }) as u64 };

        let mut cfg_c = base_config(30_000, Some(5_000));
        cfg_c.max_frame_size = lc;
        let mut cfg_s = base_config(30_000, Some(5_000));
        cfg_s.max_frame_size = ls;
        // settings of other features that must not move the limits: flow-control windows smaller than
        // the messages (a window is not a size limit: the transfer just takes more round trips),
        // and - over a slow link - a serving-side request deadline shorter than the time a large
        // request needs to arrive (the deadline is for the handler, which answers at once)
        if !class8m && w.flag("unrelated_settings", 0.4) {
            let mut wr = w.rng("cfg:windows");
            for cfg in [&mut cfg_c, &mut cfg_s] {
                let q = cfg.quic.as_mut().unwrap();
                if wr.gen_bool(0.5) { q.stream_receive_window = Some(wr.gen_range(4_096..65_536)); }
                if wr.gen_bool(0.3) { q.receive_window = Some(wr.gen_range(8_192..131_072)); }
                if wr.gen_bool(0.3) { q.send_window = Some(wr.gen_range(8_192..131_072)); }
            }
            if w.flag("short_serving_deadline_on_a_slow_link", 0.5) {
                cfg_s.inbound_request_timeout_ms = Some(w.param("inbound_request_timeout_ms", 5, 120) as u64);
                let lat = w.param("slow_link_latency_us", 2_000, 25_000) as u64;
                w.fabric.set_default_link(LinkCfg::constant(lat));
            }
            w.probe("unrelated-settings");
        }
        let seed = w.seed;
        let plan: PlanFn = Arc::new(move |req: &Request<Bytes>| {
            let (n, b, h) = parse_route(req.route());
            let mut resp = Response::new(body_for(seed, n, b, 0xBB));
            if let Ok(st) = anemo::types::response::StatusCode::new(route_status(req.route())) {
                resp = resp.with_status(st);
            }
            if let Some(pad) = h {
                resp = resp.with_header("p", "x".repeat(pad));
            }
            Plan { delay: Duration::ZERO, response: resp, hold: Duration::ZERO }
        });
        let svc = Svc::new(&w, plan);
        let h = svc.handle();
        let server = w.start_node(w.spec_exact(2, cfg_s), svc).unwrap();
        let mut spec_c = w.spec_exact(1, cfg_c);
        if added > 0 {
            spec_c.user_outbound_layer = true;
            spec_c.user_outbound_adds_header = added;
        }
        let client = w.start_node(spec_c, Svc::echo(&w)).unwrap();
        let mut sub_c = Subscription::new(&client.net).unwrap();
        let mut sub_s = Subscription::new(&server.net).unwrap();
        if client.net.connect_with_peer_id(server.addr, server.peer_id).await.is_err() {
            w.harness_error("setup connect failed");
        }
        sleep_ms(30).await;
        let limits: Vec<usize> = lc.into_iter().chain(ls).collect();
        let mut r = w.rng("wl:rpcs");
        let mut samples = Vec::new();
        let mut interesting = 0u64;
        for i in 0..n_rpcs {
            // choose the four sizes; at most one is steered next to a limit per RPC so that the
            // model's verdict is attributable
            let steer = r.gen_range(0..4);
            let (mut hq, mut bq, mut hr, mut br);
            let rnd = |r: &mut rand::rngs::StdRng| match r.gen_range(0..3) { 0 => 0usize, 1 => r.gen_range(0..100), _ => r.gen_range(0..3000) };
            bq = rnd(&mut r);
            br = rnd(&mut r);
            hq = 0usize; // 0 = no padding entry
            hr = 0usize;
            let mut on_boundary = false;
            if class8m {
                let s = (8usize << 20) + i as usize - 1; // 8 MiB-1, 8 MiB, 8 MiB+1
                if r.gen_bool(0.5) { bq = s } else { br = s }
                on_boundary = true;
            } else {
                match steer {
                    0 => { let (v, b) = near(&mut r, &limits, 0); bq = v; on_boundary = b; }
                    1 => { let (v, b) = near(&mut r, &limits, 0); br = v; on_boundary = b; }
                    2 => { let (v, b) = near(&mut r, &limits, REQ_BASE + 40 + PAD_ENTRY + added_entry); hq = v; on_boundary = b; }
                    _ => { let (v, b) = near(&mut r, &limits, RESP_BASE + PAD_ENTRY); hr = v; on_boundary = b; }
                }
            }
            // response header: either exactly RESP_BASE (no entry) or RESP_BASE + PAD_ENTRY + pad
            let resp_pad = (hr > 0).then(|| hr - RESP_BASE - PAD_ENTRY);
            let hr_size = resp_pad.map(|p| RESP_BASE + PAD_ENTRY + p).unwrap_or(RESP_BASE);
            // (the limits are about sizes: a response that is not a success - with a body - is
            // limited, refused and delivered like any other)
            let status: u16 = if r.gen_bool(0.7) { 200 } else { [400u16, 404, 408, 429, 500, 520][r.gen_range(0..6)] };
            let route = format!("/n{i}/b{br}/h{}{}", resp_pad.map(|p| p.to_string()).unwrap_or_else(|| "-".into()), if status == 200 { String::new() } else { format!("/s{status}") });
            let req_pad = (hq > 0).then(|| hq.saturating_sub(REQ_BASE + route.len() + PAD_ENTRY + added_entry));
            let hq_size = REQ_BASE + route.len() + req_pad.map(|p| PAD_ENTRY + p).unwrap_or(0) + added_entry;
            let mut req = Request::new(body_for(seed, i, bq, 0xAA)).with_route(route.clone());
            let mut hdrs = Vec::new();
            if let Some(p) = req_pad {
                req = req.with_header("p", "x".repeat(p));
                hdrs.push(("p".to_string(), "x".repeat(p)));
            }
            if added > 0 {
                hdrs.push(("x-added".to_string(), "a".repeat(added)));
            }
            // cross-check the size arithmetic against the reference encoder
            let ref_len = crate::model::wire::request_header(&route, &hdrs).len();
            if ref_len != hq_size {
                w.harness_error(format!("size arithmetic: {ref_len} != {hq_size}"));
            }
            // the model
            let over = |v: usize, l: Option<usize>| l.map(|l| v > l).unwrap_or(false);
            let verdict = if over(hq_size, lc) || over(bq, lc) {
                "sender-refuses-request"
            } else if over(hq_size, ls) || over(bq, ls) {
                "receiver-refuses-request"
            } else if over(hr_size, ls) || over(br, ls) {
                "sender-refuses-response"
            } else if over(hr_size, lc) || over(br, lc) {
                "receiver-refuses-response"
            } else {
                "delivered"
            };
            if verdict != "delivered" || on_boundary { interesting += 1; }
            let sent_before = w.fabric.lock().bytes;
            let t0 = w.now_ns();
            let res = rpc_bounded(&client, server.peer_id, req, Duration::from_secs(120)).await;
            let sent = w.fabric.lock().bytes - sent_before;
            let handled = h.seen().iter().any(|s| parse_route(&s.route).0 == i && s.route.starts_with("/n"));
            let key = format!("{verdict} lc={} ls={}", lc.is_some(), ls.is_some());
            w.event(format!("{verdict}:{}", if res.is_ok() { "ok" } else { "err" }));
            if samples.len() < 6 {
                samples.push(json!({"req_header": hq_size, "req_body": bq, "resp_header": hr_size, "resp_body": br, "caller_limit": lc, "callee_limit": ls, "model": verdict, "ok": res.is_ok()}));
            }
            match &res {
                Err(e) if e == "hang" => {
                    w.violate("rpc-hang-on-size-limit", key.clone(), format!("rpc {i} ({verdict}) did not return within 120 s of virtual time"));
                }
                Err(e) => {
                    if verdict == "delivered" {
                        let eight = class8m && lc.is_none() && ls.is_none();
                        if eight {
                            let big = bq.max(br);
                            w.violate("no-limit-configured-but-refused", format!("frame-of-{}-bytes-with-max_frame_size-None", if big > (8 << 20) { "8MiB+1" } else { "<=8MiB" }), format!("rpc with a {big}-byte frame failed although no max_frame_size is configured on either side: {e}"));
                        } else {
                            w.violate("within-limits-but-refused", key.clone(), format!("rpc {i}: req header {hq_size} body {bq}, resp header {hr_size} body {br}, limits caller {lc:?} callee {ls:?}: {e}"));
                        }
                    }
                }
                Ok(resp) => {
                    if verdict != "delivered" {
                        w.violate("over-limit-but-delivered", key.clone(), format!("rpc {i}: model verdict {verdict} (req header {hq_size} body {bq}, resp header {hr_size} body {br}, limits caller {lc:?} callee {ls:?}) but the call succeeded"));
                    } else if resp.body() != &body_for(seed, i, br, 0xBB) || resp.headers().get("p").map(|p| p.len()) != resp_pad || resp.status().to_u16() != status {
                        w.violate("delivered-not-intact", key.clone(), format!("rpc {i}: response differs from what the handler produced"));
                    }
                }
            }
            if verdict == "delivered" && res.is_ok() {
                let s = h.seen().into_iter().find(|s| parse_route(&s.route).0 == i);
                if !s.map(|s| s.body == body_for(seed, i, bq, 0xAA) && s.headers.get("p").map(|p| p.len()) == req_pad).unwrap_or(false) {
                    w.violate("delivered-not-intact", key.clone(), format!("rpc {i}: request seen by the handler differs from what was sent"));
                }
            }
            let times = h.seen().iter().filter(|s| s.route.starts_with("/n") && parse_route(&s.route).0 == i).count();
            if times > 1 {
                w.violate("request-delivered-twice", key.clone(), format!("rpc {i} ({verdict}) reached the handler {times} times"));
            }
            if (verdict == "sender-refuses-request" || verdict == "receiver-refuses-request") && handled {
                w.violate("handler-invoked-for-refused-request", key.clone(), format!("rpc {i}: {verdict} but the handler ran"));
            }
            if verdict == "sender-refuses-request" && bq > 20_000 && over(bq, lc) && sent as usize > bq / 2 {
                w.violate("oversized-request-was-transmitted", key.clone(), format!("rpc {i}: body of {bq} bytes exceeds the caller's own limit {lc:?} but {sent} bytes went on the wire"));
            }
            let _ = t0;
            // confinement: a follow-up RPC on the same connection succeeds, nobody lost anybody
            let follow = Request::new(Bytes::new()).with_route(format!("/n{}/b0/h-", 1_000_000 + i));
            let fr = rpc_bounded(&client, server.peer_id, follow, Duration::from_secs(30)).await;
            if let Err(e) = fr {
                w.violate("follow-up-rpc-failed", key.clone(), format!("after rpc {i} ({verdict}) a small follow-up rpc failed: {e}"));
            }
            sub_c.drain(w.now_ns());
            sub_s.drain(w.now_ns());
            if sub_c.history.len() != 1 || sub_s.history.len() != 1 {
                w.violate("connection-torn-down-by-size-limit", key.clone(), format!("peer events after rpc {i} ({verdict}): caller {:?} callee {:?}", sub_c.history.iter().map(|e| &e.ev).collect::<Vec<_>>(), sub_s.history.iter().map(|e| &e.ev).collect::<Vec<_>>()));
            }
            if w.violated() { break; }
        }
        if interesting > 0 { w.mark_overlap(); }
        w.probe_n("rpcs-at-or-over-a-limit", interesting);
        if class8m { w.probe("8MiB-boundary-run"); }
        w.sample("rpcs", json!(samples));
        let out = w.finish();
        drop((client, server));
        out
    })
}
