//! Connection-lifecycle history engine shared by C04 (events are an exact change log) and C09
//! (views are eventually mutual, disconnects propagate).

use super::common::*;
use crate::fabric::LinkCfg;
use crate::runner::{ScenFuture, Scenario};
use crate::world::*;
use anemo::types::{DisconnectReason, PeerEvent};
use anemo::{PeerId, Request};
use bytes::Bytes;
use rand::Rng;
use serde_json::json;
use std::collections::{BTreeMap, BTreeSet};
use std::sync::{Arc, Mutex};
use std::time::Duration;

pub static C04_HISTORY: Scenario = Scenario {
    id: "C04",
    name: "c04-network-history",
    run: run_c04,
    quick_runs: 8000,
    thorough_runs: 150_000,
    rule: "one run = 3-5 real Networks and a PRNG history of 4-30 operations (dial, re-dial of a connected peer = replacement, disconnect, restart with the same identity and address, partition / one-way blackhole / loss burst with heal, RPC) while observers call subscribe() at PRNG instants and compare peers() with every live subscription's reconstruction after every operation; distinct = distinct order signature over (operation, outcome, peer events per node); non-trivial = a replacement, disconnect, restart or fault occurred",
    real: super::REAL_NET,
    stubbed: super::STUB_NET,
};

pub static C09_HISTORY: Scenario = Scenario {
    id: "C09",
    name: "c09-network-history",
    run: run_c09,
    quick_runs: 8000,
    thorough_runs: 150_000,
    rule: "one run = 3-5 real Networks (idle timeout 2-10 s, keep-alive absent or below half of it), a PRNG history of dials, disconnects, restarts and RPCs under a PRNG schedule of partitions, one-way blackholes, loss bursts and heals, then a fault-free tail longer than idle timeout + keep-alive + connect timeout; distinct = distinct order signature over (operation, outcome, peer events per node); non-trivial = a disconnect, restart or fault occurred",
    real: super::REAL_NET,
    stubbed: super::STUB_NET,
};

fn run_c04(input: RunInput) -> ScenFuture {
    Box::pin(run(input, Mode::C04))
}
fn run_c09(input: RunInput) -> ScenFuture {
    Box::pin(run(input, Mode::C09))
}

#[derive(Clone, Copy, PartialEq)]
enum Mode {
    C04,
    C09,
}

type EvLog = Arc<Mutex<Vec<(u64, PeerEvent)>>>;

struct Slot {
    node: Node,
    /// precise (emit-time) event log of the current incarnation
    log: EvLog,
    /// observer subscriptions taken at arbitrary instants (incl. one at start)
    subs: Vec<Subscription>,
    incarnation: u32,
    /// what this node's handler saw (for "only listed peers are served")
    svc: SvcHandle,
}

fn start_watch(w: &World, node: &Node, idx: usize, inc: u32) -> EvLog {
    let log: EvLog = Default::default();
    let Ok((mut rx, snapshot)) = node.net.subscribe() else { return log };
    assert!(snapshot.is_empty());
    let (w, log2) = (w.clone(), log.clone());
    tokio::spawn(async move {
        loop {
            match rx.recv().await {
                Ok(ev) => {
                    w.event(match &ev {
                        PeerEvent::NewPeer(p) => format!("n{idx}.{inc}:New({})", w.pname(p)),
                        PeerEvent::LostPeer(p, r) => format!("n{idx}.{inc}:Lost({},{r:?})", w.pname(p)),
                    });
                    log2.lock().unwrap().push((w.now_ns(), ev));
                }
                Err(tokio::sync::broadcast::error::RecvError::Lagged(_)) => w.harness_error("event watcher lagged"),
                Err(_) => break,
            }
        }
    });
    log
}

/// Compare `peers()` with the reconstruction of every live subscription, at one instant.
fn sample(w: &World, s: &mut Slot, idx: usize, at: &str) {
    let now = w.now_ns();
    for sub in s.subs.iter_mut() {
        sub.drain(now);
    }
    let peers = s.node.net.peers();
    let set: BTreeSet<PeerId> = peers.iter().copied().collect();
    if set.len() != peers.len() {
        w.violate("duplicate-in-listing", format!("n{idx}"), format!("peers() of n{idx} contains duplicates: {} entries, {} distinct", peers.len(), set.len()));
    }
    if set.contains(&s.node.peer_id) {
        w.violate("self-in-listing", format!("n{idx}"), "a node lists itself".to_string());
    }
    for (k, sub) in s.subs.iter().enumerate() {
        if sub.lagged {
            w.harness_error("observer subscription lagged");
        }
        if sub.closed {
            continue;
        }
        if let Some(e) = &sub.alternation_error {
            w.violate("event-alternation", format!("n{idx}"), format!("subscription {k} of n{idx} ({at}): {e}"));
        }
        if sub.listed != set {
            w.violate(
                "events-do-not-reproduce-listing",
                format!("n{idx}"),
                format!(
                    "{at}: subscription {k} of n{idx} (snapshot {} peers + {} events) reconstructs {:?} but peers() = {:?}",
                    sub.snapshot.len(),
                    sub.history.len(),
                    sub.listed.iter().map(|p| w.pname(p)).collect::<Vec<_>>(),
                    set.iter().map(|p| w.pname(p)).collect::<Vec<_>>()
                ),
            );
        }
    }
}

async fn run(input: RunInput, mode: Mode) -> RunOutput {
    let w = World::new(&input, LinkCfg::clean(200, 5_000));
    let faulty = w.flag("faulty", 0.6);
    let n = w.param("nodes", 3, 5) as usize;
    let n_ops = w.param("ops", 1, if w.tier == Tier::Quick { 30 } else { 90 }) as usize;
    let idle_ms = w.param("idle_ms", 2_000, 10_000) as u64;
    // keep-alive absent, below half the idle timeout (keeps idle connections alive) or - an odd
    // but legal configuration - at or above it (never fires in time)
    let ka_ms = w.flag("keepalive", 0.6).then(|| {
        if w.flag("keepalive_at_or_above_idle", 0.2) {
            w.param("keepalive_long_ms", idle_ms as i64, 2 * idle_ms as i64) as u64
        } else {
            w.param("keepalive_ms", 300, idle_ms as i64 / 2 - 100) as u64
        }
    });
    let ka_effective = ka_ms.filter(|k| *k < idle_ms);
    let lat_max = w.param("lat_max_us", 300, 20_000) as u64;
    let connect_timeout_ms = w.param("connect_timeout_ms", 1_000, 3_000) as u64;
    let mut cfg = base_config(idle_ms, ka_ms);
    cfg.connect_timeout_ms = Some(connect_timeout_ms);
    cfg.shutdown_idle_timeout_ms = Some(500);
    // a frame limit on every node and, now and then, a request above it: that RPC fails (C15) and
    // nothing about the connection, the listing or the events may change because of it
    // (not on every node: a sender without a limit gets its request refused by the receiver)
    let frame_limit = w.flag("frame_limit", 0.25).then(|| w.param("max_frame_size", 2_000, 20_000) as usize);
    let limited: Vec<bool> = { let mut rl = w.rng("cfg:frame-limited-nodes"); (0..5).map(|_| rl.gen_bool(0.6)).collect() };
    // the application's service may exert backpressure (tower's ConcurrencyLimit, shared by all
    // connections of a node): a connection whose next request has to wait for the service is
    // watched for its end like any other
    let backpressure = w.flag("service_backpressure", 0.25).then(|| w.param("service_slots", 1, 2) as usize);
    let cfg_for = |i: usize| { let mut c = cfg.clone(); c.max_frame_size = frame_limit.filter(|_| limited[i]); c };
    let mut link = LinkCfg::clean(200, lat_max);
    if faulty {
        link.drop = w.param("drop_pct", 0, 10) as f64 / 100.0;
        link.dup = w.param("dup_pct", 0, 6) as f64 / 100.0;
    }
    w.fabric.set_default_link(link.clone());
    let mut slots: Vec<Slot> = Vec::new();
    for i in 0..n {
        let svc = Svc::echo(&w);
        let svc_h = svc.handle();
        let node = match backpressure {
            Some(k) => w.start_node(w.spec(i as u8 + 1, cfg_for(i)), tower::limit::ConcurrencyLimit::new(svc, k)),
            None => w.start_node(w.spec(i as u8 + 1, cfg_for(i)), svc),
        }
        .unwrap();
        let log = start_watch(&w, &node, i, 0);
        let subs = vec![Subscription::new(&node.net).unwrap()];
        slots.push(Slot { node, log, subs, incarnation: 0, svc: svc_h });
    }
    let ids: Vec<PeerId> = slots.iter().map(|s| s.node.peer_id).collect();
    let addrs: Vec<_> = slots.iter().map(|s| s.node.addr).collect();
    // the nodes may know each other: entries with affinity Allowed *and an address* in everybody's
    // known-peer table. Nothing dials an Allowed peer on its own (C13), and knowing where a peer
    // lives is no connection: a disconnected peer stays disconnected until somebody dials
    if w.flag("nodes_know_each_other_as_allowed_peers", 0.3) {
        for i in 0..n {
            for j in 0..n {
                if i != j {
                    slots[i].node.net.known_peers().insert(anemo::types::PeerInfo { peer_id: ids[j], affinity: anemo::types::PeerAffinity::Allowed, address: vec![addrs[j].into()] });
                }
            }
        }
        w.probe("nodes-know-each-other");
    }
    // bound for "reported lost by the other side": effective idle timeout + one keep-alive
    // interval (QUIC restarts the idle timer on the first ack-eliciting packet sent after the
    // last one received) + latency + quantum
    let spike_ms = 0u64;
    let bound_ns = (idle_ms + ka_effective.unwrap_or(idle_ms) + 2 * lat_max / 1000 + spike_ms + 50) * 1_000_000;

    let mut r = w.rng("wl:ops");
    let mut interesting = false;
    let mut crashed = false;
    let mut silent_death: Option<(u64, usize)> = None;
    let mut disconnect_checks = 0u64;
    let mut op_log = Vec::new();
    // active network faults (to heal later)
    let mut healing: Vec<(u64, usize, usize, u8)> = Vec::new();
    // Peer handles the application took earlier and still holds: (slot, peer, handle, taken at)
    let mut stale: Vec<(usize, usize, anemo::Peer, u64)> = Vec::new();
    // CPU-bound handlers: requests whose handler occupies its worker thread for a while (the task
    // running it can neither be polled nor dropped meanwhile); whatever happens to the connection
    // in that time - close, replacement, loss, restart - must be reported as promptly as ever
    let cpu_bound = w.flag("cpu_bound_handlers", 0.3);
    let mut r_cpu = w.rng("wl:cpu-bound");
    let mut r_hangup = w.rng("wl:hangup");
    // disconnects issued by application tasks in reaction to a failed call: (time, who, whom, listed then, Ok)
    let reactive: Arc<Mutex<Vec<(u64, usize, usize, bool, bool)>>> = Default::default();
    // ... and handlers busy on a resource that is always ready (they yield only when tokio's
    // cooperative budget makes them; the process is one busy thread meanwhile, timers fire at
    // the next turn of the timer driver)
    let busy_handlers = w.flag("handlers_busy_on_a_hot_resource", 0.12);
    let mut r_busy = w.rng("wl:busy");
    let mut holder_until = vec![0u64; 5];
    let poison_ok = w.flag("a_handler_may_panic", 0.3);
    // the node whose connection manager went down with its application's panic: it publishes
    // nothing any more (its event log just ends)
    let mut panicked: Option<usize> = None;
    // explicit disconnects on a clean network: (time, who disconnected, whom)
    let mut clean_disconnects: Vec<(u64, usize, usize)> = Vec::new();
    // instants at which a node was cut off from everybody (silent death, crash before a restart)
    let mut isolations: Vec<(u64, usize)> = Vec::new();
    for _ in 0..n_ops {
        sleep_ms(r.gen_range(0..800)).await;
        if cpu_bound && r_cpu.gen_bool(0.35) {
            let a = r_cpu.gen_range(0..n);
            let b = (a + 1 + r_cpu.gen_range(0..n - 1)) % n;
            // (with backpressure: short ones only, and one at a time per server, so that the bounded
            // probes of other operations are not starved by the harness itself)
            let hold_ms: u64 = if backpressure.is_some() || r_cpu.gen_bool(0.6) { r_cpu.gen_range(50..1_500) } else { bound_ns / 1_000_000 + r_cpu.gen_range(500..3_000) };
            let free = backpressure.is_none() || holder_until[b] <= w.now_ns();
            if free && slots[a].node.net.peers().contains(&ids[b]) && silent_death.map(|(_, d)| d != a && d != b).unwrap_or(true) {
                holder_until[b] = w.now_ns() + (hold_ms + 50) * 1_000_000;
                let net = slots[a].node.net.clone();
                let pb = ids[b];
                tokio::spawn(async move {
                    let _ = net.rpc(pb, Request::new(Bytes::from_static(b"cpu")).with_header("x-hold-ms", hold_ms.to_string())).await;
                });
                w.probe("cpu-bound-handler-started");
                interesting = true;
            }
        }
        if busy_handlers && r_busy.gen_bool(0.4) {
            let a = r_busy.gen_range(0..n);
            let b = (a + 1 + r_busy.gen_range(0..n - 1)) % n;
            let busy_ms: u64 = r_busy.gen_range(30..600);
            if slots[a].node.net.peers().contains(&ids[b]) && silent_death.map(|(_, d)| d != a && d != b).unwrap_or(true) {
                let net = slots[a].node.net.clone();
                let pb = ids[b];
                tokio::spawn(async move {
                    let _ = net.rpc(pb, Request::new(Bytes::from_static(b"busy")).with_header("x-busy-ms", busy_ms.to_string())).await;
                });
                w.probe("busy-handler-started");
                interesting = true;
            }
        }
        // with every slot of a node's service taken by slow requests, another peer's request has to
        // wait for the service - and that peer hangs up meanwhile
        if let Some(k) = backpressure {
            if r_cpu.gen_bool(0.3) {
                let b = r_cpu.gen_range(0..n);
                let alive = |x: usize| silent_death.map(|(_, d)| d != x).unwrap_or(true);
                let conn: Vec<usize> = (0..n).filter(|x| *x != b && alive(*x) && slots[*x].node.net.peers().contains(&ids[b]) && slots[b].node.net.peers().contains(&ids[*x])).collect();
                if conn.len() >= 2 && alive(b) && holder_until[b] <= w.now_ns() {
                    let (a, c) = (conn[0], conn[1]);
                    let busy_ms: u64 = r_cpu.gen_range(300..1_500);
                    holder_until[b] = w.now_ns() + (busy_ms + 100) * 1_000_000;
                    let pb = ids[b];
                    for _ in 0..k {
                        let net = slots[a].node.net.clone();
                        tokio::spawn(async move {
                            let _ = net.rpc(pb, Request::new(Bytes::from_static(b"slow")).with_header("x-delay-ms", busy_ms.to_string())).await;
                        });
                    }
                    sleep_ms(2 * lat_max / 1000 + 5).await;
                    let net = slots[c].node.net.clone();
                    tokio::spawn(async move {
                        let _ = net.rpc(pb, Request::new(Bytes::from_static(b"queued"))).await;
                    });
                    sleep_ms(2 * lat_max / 1000 + 5).await;
                    let t = w.now_ns();
                    let _ = slots[c].node.net.disconnect(ids[b]);
                    if !faulty && !crashed && silent_death.is_none() {
                        clean_disconnects.push((t, c, b));
                    }
                    interesting = true;
                    w.probe("hang-up-while-a-request-waits-for-the-service");
                    w.event(format!("disconnect n{c}-n{b}:while-queued"));
                }
            }
        }
        // heal what is due
        let now_ms = w.now_ms();
        healing.retain(|(until, a, b, kind)| {
            if *until <= now_ms {
                match kind {
                    0 => w.fabric.heal(addrs[*a], addrs[*b]),
                    1 => w.fabric.unblock(addrs[*a], addrs[*b]),
                    _ => {
                        w.fabric.set_link(addrs[*a], addrs[*b], link.clone());
                        w.fabric.set_link(addrs[*b], addrs[*a], link.clone());
                    }
                }
                false
            } else {
                true
            }
        });
        let i = r.gen_range(0..n);
        let mut j = r.gen_range(0..n);
        if j == i {
            j = (j + 1) % n;
        }
        let kind = r.gen_range(0..100);
        let mut desc: String;
        if let Some((_, dead)) = silent_death {
            if i == dead {
                continue; // the dead node does nothing any more
            }
        }
        if kind < 35 {
            // dial (also a re-dial when already connected: replacement)
            let already = slots[i].node.net.peers().contains(&ids[j]);
            if already {
                interesting = true;
            }
            let res = if r.gen_bool(0.5) {
                slots[i].node.net.connect(addrs[j]).await
            } else {
                slots[i].node.net.connect_with_peer_id(addrs[j], ids[j]).await
            };
            // the application may hang up the very moment the dial returns - before any task the
            // dial made runnable (the new connection's request handler among them) has been polled
            let hangup = res.is_ok() && r_hangup.gen_bool(0.12);
            if hangup {
                let _ = slots[i].node.net.disconnect(ids[j]);
                w.probe("hang-up-right-after-dial");
                interesting = true;
            }
            desc = format!("dial n{i}>n{j}{}:{}{}", if already { "(re)" } else { "" }, if res.is_ok() { "ok" } else { "err" }, if hangup { "+hangup" } else { "" });
            if let Ok(p) = &res {
                w.check(*p == ids[j], "dial-returned-wrong-id", "dial", || "wrong id".into());
            }
            // ... and dial the same peer again at once: the other side may still be busy with the
            // first connection (its handshake task, its close) when the second one arrives
            let res = if hangup && r_hangup.gen_bool(0.5) {
                w.probe("hang-up-then-immediate-re-dial");
                let again = slots[i].node.net.connect_with_peer_id(addrs[j], ids[j]).await;
                desc = format!("{desc}+redial:{}", if again.is_ok() { "ok" } else { "err" });
                again
            } else if hangup {
                Err(anyhow::anyhow!("hung up"))
            } else {
                res
            };
            // (without keep-alive a registered connection may already be dead on the remote side -
            // idle timeouts fire at different instants on the two ends - and the tie-break may
            // legitimately keep it over the fresh one, so this is only judged with keep-alive)
            // ... and only while no node has crashed: after a crash the peers hold connections to
            // the dead incarnation until they notice, and the tie-break may keep such a one
            if res.is_ok() && !faulty && !crashed && ka_effective.is_some() && mode == Mode::C04 {
                // after a (re-)dial the peer is listed and the registered connection serves RPCs
                let listed = slots[i].node.net.peers().contains(&ids[j]);
                w.check(listed, "peer-not-listed-after-dial", format!("re={already}"), || format!("n{i} dialed n{j} successfully but does not list it"));
                let pr = probe(&w, &slots[i].node, ids[j], 7, Duration::from_secs(5)).await;
                if let Err(e) = pr {
                    // the remote may legitimately have disconnected meanwhile? not in a fault-free sequential history
                    w.violate("rpc-fails-after-dial", format!("re={already}"), format!("n{i}>n{j} after a successful {}dial: {e}", if already { "re-" } else { "" }));
                }
            }
        } else if kind < 55 {
            // (in part of the cases the *other* side has a long call in flight to n{i} and an
            // application task that reacts to its failure by disconnecting n{i} on its side too -
            // at an instant at which the connection may already be closed but not yet taken off
            // the list: whoever takes it off, an explicit disconnect of a listed peer publishes
            // LostPeer(Requested))
            if mode == Mode::C09 && !faulty && r_hangup.gen_bool(0.3) && slots[i].node.net.peers().contains(&ids[j]) && slots[j].node.net.peers().contains(&ids[i]) && silent_death.is_none() {
                let (net, pi, w2, log) = (slots[j].node.net.clone(), ids[i], w.clone(), reactive.clone());
                tokio::spawn(async move {
                    let r = net.rpc(pi, Request::new(Bytes::from_static(b"long")).with_header("x-delay-ms", "60000")).await;
                    if r.is_err() {
                        let listed = net.peers().contains(&pi);
                        let ok = net.disconnect(pi).is_ok();
                        log.lock().unwrap().push((w2.now_ns(), j, i, listed, ok));
                    }
                });
                sleep_ms(2 * lat_max / 1000 + 5).await;
                w.probe("disconnect-in-reaction-to-a-failed-call");
            }
            // explicit disconnect: immediate local effect
            let was_listed = slots[i].node.net.peers().contains(&ids[j]);
            let now = w.now_ns();
            slots[i].subs[0].drain(now);
            let mark = slots[i].subs[0].history.len();
            let res = slots[i].node.net.disconnect(ids[j]);
            let listed_after = slots[i].node.net.peers().contains(&ids[j]);
            // the event is already in the channel when disconnect() returns (synchronous drain)
            slots[i].subs[0].drain(now);
            let evs_now: Vec<PeerEvent> = slots[i].subs[0].history[mark..].iter().map(|e| e.ev.clone()).collect();
            desc = format!("disconnect n{i}-n{j}:{}", if was_listed { "was-connected" } else { "noop" });
            if was_listed {
                interesting = true;
                if !faulty && !crashed && silent_death.is_none() {
                    clean_disconnects.push((now, i, j));
                }
            }
            if mode == Mode::C09 {
                disconnect_checks += 1;
                w.check(res.is_ok(), "disconnect-failed", "disconnect", || format!("{:?}", res.as_ref().err().map(|e| e.to_string())));
                w.check(!listed_after, "disconnect-not-immediate", "listing", || format!("n{i} still lists n{j} right after disconnect() returned"));
                if was_listed {
                    let ok = evs_now.iter().any(|e| matches!(e, PeerEvent::LostPeer(p, DisconnectReason::Requested) if *p == ids[j]));
                    w.check(ok, "disconnect-without-lostpeer-requested", "events", || format!("events published by disconnect(): {evs_now:?}"));
                } else {
                    w.check(evs_now.is_empty(), "disconnect-of-unconnected-peer-published-events", "events", || format!("{evs_now:?}"));
                }
                // RPCs to it fail until a new connection is established
                let rr = rpc_bounded(&slots[i].node, ids[j], Request::new(Bytes::from_static(b"x")), Duration::from_secs(5)).await;
                slots[i].subs[0].drain(w.now_ns());
                let new_since = slots[i].subs[0].history[mark..].iter().any(|e| matches!(&e.ev, PeerEvent::NewPeer(p) if *p == ids[j]));
                if !new_since {
                    w.check(rr.is_err(), "rpc-succeeds-after-disconnect", "rpc", || format!("n{i}>n{j} succeeded after disconnect without a new connection"));
                } else if was_listed && !faulty && !crashed && silent_death.is_none() {
                    // a new connection - but nobody dialed: every dial of the history has returned
                    // before this operation began, n{i} listed n{j} (so the pair was connected at
                    // both ends) and nothing in the table makes anybody dial on its own. An RPC
                    // does not establish connections
                    w.check(rr.is_err(), "rpc-succeeds-after-disconnect", "rpc-established-a-connection", || format!("n{i}>n{j} succeeded right after n{i} disconnected n{j}, over a connection that appeared although nobody dialed"));
                }
            }
        } else if kind < 58 && !faulty && silent_death.is_none() && w.now_ms() > 500 {
            // silent death: the node is cut off from everybody for good (to its peers the same as a
            // crash without restart). The network was fault-free until now, so RTT estimates are
            // small and the plain idle-timeout bound applies to everybody who listed it.
            w.fabric.isolate(addrs[i]);
            isolations.push((w.now_ns(), i));
            silent_death = Some((w.now_ns(), i));
            crashed = true;
            interesting = true;
            desc = format!("silent-death n{i}");
        } else if kind < 59 && !faulty && silent_death.is_none() && poison_ok && w.now_ms() > 500 && slots[i].node.net.peers().contains(&ids[j]) {
            // the application's handler at n{j} panics on a request. anemo propagates such a panic
            // up to the connection manager: the node goes down, closing its connections - from then
            // on it is as dead as after a silent death, only that everybody is told at once
            let before = crate::runner::deliberate_panics();
            let _ = tokio::time::timeout(Duration::from_secs(5), slots[i].node.net.rpc(ids[j], Request::new(Bytes::from_static(b"poison")).with_header("x-panic", "1"))).await;
            // (the request may never have reached the handler: a connection that n{i} still
            // listed can be a dead one - sweep seed 1003: the peer had crashed and restarted, the
            // stale connection timed out in the very millisecond of the call)
            if crate::runner::deliberate_panics() > before {
                silent_death = Some((w.now_ns(), j));
                panicked = Some(j);
                crashed = true;
                interesting = true;
                w.probe("application-handler-panicked");
                desc = format!("handler-panic n{j}");
            } else {
                desc = format!("handler-panic n{j}:request-not-delivered");
            }
        } else if kind < 63 {
            // restart with the same identity and address; half of them after a *crash*: the node is
            // cut off from everybody first, so no peer hears a close, and the new incarnation
            // answers their stale connections (stateless resets keyed by the private key)
            interesting = true;
            let crash = r.gen_bool(0.5);
            if crash {
                crashed = true;
                w.fabric.isolate(addrs[i]);
                isolations.push((w.now_ns(), i));
            }
            let t0 = w.now_ns();
            let sd = tokio::time::timeout(Duration::from_secs(30), slots[i].node.net.shutdown()).await;
            if !matches!(sd, Ok(Ok(()))) {
                w.harness_error(format!("restart: shutdown of n{i} did not complete: {sd:?}"));
                break;
            }
            let _ = t0;
            let inc = slots[i].incarnation + 1;
            let mut spec = w.spec(i as u8 + 1, cfg_for(i));
            spec.key = slots[i].node.key;
            let svc = Svc::echo(&w);
            let svc_h = svc.handle();
            stale.retain(|(si, _, _, _)| *si != i);
            let started = match backpressure {
                Some(k) => w.start_node(spec, tower::limit::ConcurrencyLimit::new(svc, k)),
                None => w.start_node(spec, svc),
            };
            match started {
                Ok(node) => {
                    let log = start_watch(&w, &node, i, inc);
                    let subs = vec![Subscription::new(&node.net).unwrap()];
                    slots[i] = Slot { node, log, subs, incarnation: inc, svc: svc_h };
                }
                Err(e) => {
                    w.violate("address-not-rebindable-after-shutdown", format!("n{i}"), format!("{e}"));
                    break;
                }
            }
            if crash {
                for k in 0..n {
                    if k != i {
                        w.fabric.heal(addrs[i], addrs[k]);
                    }
                }
                // (partitions scheduled by earlier operations and not yet healed are re-applied)
                for (_, a, b, kind) in &healing {
                    match kind {
                        0 => w.fabric.partition(addrs[*a], addrs[*b]),
                        1 => w.fabric.block(addrs[*a], addrs[*b]),
                        _ => {}
                    }
                }
            }
            desc = format!("{} n{i}", if crash { "crash-restart" } else { "restart" });
        } else if kind < 78 && faulty {
            interesting = true;
            let dur = if r.gen_bool(0.4) { idle_ms + ka_ms.unwrap_or(0) + r.gen_range(200..3000) } else { r.gen_range(50..idle_ms / 2) };
            let k = r.gen_range(0..4u8);
            match k {
                0 => w.fabric.partition(addrs[i], addrs[j]),
                1 => w.fabric.block(addrs[i], addrs[j]),
                3 => {
                    // the whole process stalls (a suspended VM, a debugger, a long GC pause next
                    // door): the clock jumps, every timer that expired meanwhile fires at once
                    tokio::time::advance(Duration::from_millis(dur)).await;
                    w.probe(if dur > idle_ms { "process-stall-longer-than-idle-timeout" } else { "process-stall" });
                }
                _ => {
                    let mut burst = link.clone();
                    burst.drop = 0.7;
                    w.fabric.set_link(addrs[i], addrs[j], burst.clone());
                    w.fabric.set_link(addrs[j], addrs[i], burst);
                }
            }
            if k != 3 {
                healing.push((w.now_ms() + dur, i, j, k));
            }
            desc = format!("{} n{i}-n{j} {}", ["partition", "blackhole", "loss-burst", "process-stall"][k as usize], if dur > idle_ms { "long" } else { "short" });
        } else if kind < 84 && !stale.is_empty() {
            // an RPC over a Peer handle taken earlier
            let (si, sj, mut handle, taken) = stale.remove(r.gen_range(0..stale.len()));
            let lists_now = slots[si].node.net.peers().contains(&ids[sj]);
            let rr = tokio::time::timeout(Duration::from_secs(60), handle.rpc(Request::new(Bytes::from_static(b"stale")))).await;
            let ok = matches!(rr, Ok(Ok(_)));
            desc = format!("stale-rpc n{si}>n{sj}:{}", if ok { "ok" } else { "err" });
            if mode == Mode::C09 && ok && !lists_now && !slots[si].node.net.peers().contains(&ids[sj]) {
                // the handle's connection is not registered any more, so n{si} removed or replaced
                // (= closed) it, or saw it closed: RPCs over it must fail
                w.violate("rpc-over-a-removed-connection-succeeds", "stale-handle", format!("n{si} does not list n{sj}, yet an RPC over a Peer handle taken {} ms ago succeeded: the connection it belongs to was removed from the connected set without being closed", (w.now_ns() - taken) / 1_000_000));
            }
            // an RPC over an old handle that fails (its connection was replaced) is that call's own
            // business: the peer's current connection stays where it is
            // (not while a hang-up by either side is on its way: then the handle's connection may
            // well be the current one, ending)
            let t_op = w.now_ns();
            let hangup_under_way = clean_disconnects.iter().any(|(t, c, b)| ((*c == si && *b == sj) || (*c == sj && *b == si)) && t_op.saturating_sub(*t) < (2 * lat_max / 1000 + 50 + 5_000) * 1_000_000);
            if !ok && lists_now && !hangup_under_way && !faulty && !crashed && silent_death.is_none() && ka_effective.is_some() && mode == Mode::C04 {
                let still = slots[si].node.net.peers().contains(&ids[sj]);
                let next = probe(&w, &slots[si].node, ids[sj], 9, Duration::from_secs(5)).await;
                if !still || next.is_err() {
                    w.violate("failed-rpc-over-an-old-handle-disturbed-the-current-connection", "stale-handle", format!("n{si} listed n{sj} when an RPC over a Peer handle taken {} ms ago failed; afterwards: still listed = {still}, next rpc = {next:?}", (w.now_ns() - taken) / 1_000_000));
                }
                w.probe("failed-rpc-over-an-old-handle");
            }
            if ok && lists_now {
                stale.push((si, sj, handle, taken));
            }
        } else if kind < 90 {
            if stale.len() < 8 && r.gen_bool(0.6) {
                if let Some(h) = slots[i].node.net.peer(ids[j]) {
                    stale.push((i, j, h, w.now_ns()));
                }
            }
            let oversized = frame_limit.filter(|_| (limited[i] || limited[j]) && r_hangup.gen_bool(0.5));
            let body = match oversized {
                Some(l) => Bytes::from(vec![7u8; l + 1 + (l / 3)]),
                None => Bytes::from_static(b"ping"),
            };
            // (not while a hang-up by the other side is still on its way: thorough-tier seed
            // 13615311595422362811, n2 hung up on n0 a millisecond before n0's oversized request)
            let t_op = w.now_ns();
            let hangup_under_way = clean_disconnects.iter().any(|(t, c, b)| ((*c == i && *b == j) || (*c == j && *b == i)) && t_op.saturating_sub(*t) < (2 * lat_max / 1000 + 50) * 1_000_000);
            let listed_before = slots[i].node.net.peers().contains(&ids[j]) && !hangup_under_way;
            let rr = rpc_bounded(&slots[i].node, ids[j], Request::new(body), Duration::from_secs(60)).await;
            desc = format!("rpc n{i}>n{j}{}:{}", if oversized.is_some() { "(oversized)" } else { "" }, if rr.is_ok() { "ok" } else { "err" });
            if oversized.is_some() {
                w.probe("oversized-request-in-a-history");
                w.check(rr.is_err(), "over-limit-but-delivered", "history", || format!("a request above the frame limit {frame_limit:?} succeeded"));
                if listed_before && !faulty && !crashed && ka_effective.is_some() && mode == Mode::C04 {
                    // confined to that RPC: the peer stays listed and answers the next one
                    sleep_ms(2 * lat_max / 1000 + 20).await;
                    let still = slots[i].node.net.peers().contains(&ids[j]);
                    let next = probe(&w, &slots[i].node, ids[j], 8, Duration::from_secs(5)).await;
                    if !still || next.is_err() {
                        w.violate("oversized-request-disturbed-the-connection", "history", format!("after a refused oversized request n{i}>n{j}: still listed = {still}, next rpc = {next:?}"));
                    }
                }
            }
            if let Err(e) = &rr {
                // no timing verdict while faults still flow (a 70 % loss burst legitimately keeps a
                // connection alive and an RPC pending for a long time)
                w.check(e != "hang" || faulty, "rpc-hang", "history", || format!("rpc n{i}>n{j} pending for 60 s on a fault-free network"));
            }
        } else {
            // a new observer subscribes now
            if let Some(s) = Subscription::new(&slots[i].node.net) {
                slots[i].subs.push(s);
            }
            desc = format!("subscribe n{i}");
        }
        w.event(desc.clone());
        if op_log.len() < 40 {
            op_log.push(desc);
        }
        if mode == Mode::C04 {
            for (k, s) in slots.iter_mut().enumerate() {
                sample(&w, s, k, "after-op");
            }
        }
        if w.violated() {
            break;
        }
    }
    // ---- fault-free tail ----
    w.fabric.heal_all();
    if let Some((_, dead)) = silent_death {
        w.fabric.isolate(addrs[dead]);
    }
    for (_, a, b, _) in &healing {
        w.fabric.set_link(addrs[*a], addrs[*b], link.clone());
        w.fabric.set_link(addrs[*b], addrs[*a], link.clone());
    }
    w.fabric.set_faults_enabled(false);
    let tail_ms = idle_ms + ka_ms.unwrap_or(0) + connect_timeout_ms + 2 * lat_max / 1000 + 1_000;
    // without keep-alive an idle connection legitimately times out: check quiescence before that,
    // but after every in-flight close has been delivered or timed out
    sleep_ms(tail_ms).await;
    if mode == Mode::C04 {
        for (k, s) in slots.iter_mut().enumerate() {
            sample(&w, s, k, "quiescence");
        }
    }
    if mode == Mode::C09 && !w.violated() {
        // (0) silent death in an otherwise fault-free run: everybody who listed the dead node
        // reports it lost within idle timeout + one keep-alive interval (keep-alives that fire in
        // time) or two idle timeouts (none) - the last clause of the property with the exact
        // transport bound
        if let Some((t_dead, dead)) = silent_death {
            // QUIC restarts the idle timer on a receive and on the *first* ack-eliciting packet sent
            // after the last receive (RFC 9000 10.1). With keep-alives below the idle timeout that
            // first send comes at most one keep-alive interval after the last receive; otherwise it
            // may be an application RPC sent just before expiry: two idle periods in the worst case.
            let exact_ns = (idle_ms + ka_effective.unwrap_or(idle_ms) + 2 * lat_max / 1000 + 500) * 1_000_000;
            for a in 0..n {
                if a == dead || slots[a].incarnation > 0 {
                    continue;
                }
                let log = slots[a].log.lock().unwrap().clone();
                let mut listed_at_death = false;
                for (t, e) in &log {
                    if *t > t_dead {
                        break;
                    }
                    match e {
                        PeerEvent::NewPeer(q) if *q == ids[dead] => listed_at_death = true,
                        PeerEvent::LostPeer(q, _) if *q == ids[dead] => listed_at_death = false,
                        _ => {}
                    }
                }
                if !listed_at_death {
                    continue;
                }
                let lost_at = log.iter().find(|(t, e)| *t >= t_dead && matches!(e, PeerEvent::LostPeer(q, _) if *q == ids[dead])).map(|x| x.0);
                let now = w.now_ns();
                match lost_at {
                    Some(t) if t <= t_dead + exact_ns => w.probe("silent-death-detected-in-time"),
                    Some(t) => w.violate("silent-loss-detected-later-than-idle-timeout", format!("keepalive={}", match ka_ms { None => "none", Some(k) if k < idle_ms => "below-idle", _ => "at-or-above-idle" }), format!("n{dead} went silent at {} ms; n{a} listed it and reported LostPeer only {} ms later (idle timeout {idle_ms} ms, keep-alive {ka_ms:?} ms)", t_dead / 1_000_000, (t - t_dead) / 1_000_000)),
                    None if now > t_dead + exact_ns => w.violate("silent-loss-detected-later-than-idle-timeout", format!("keepalive={}", match ka_ms { None => "none", Some(k) if k < idle_ms => "below-idle", _ => "at-or-above-idle" }), format!("n{dead} went silent at {} ms; n{a} listed it and has not reported LostPeer {} ms later (idle timeout {idle_ms} ms, keep-alive {ka_ms:?} ms)", t_dead / 1_000_000, (now - t_dead) / 1_000_000)),
                    None => {}
                }
            }
        }
        // (0b) a disconnect issued in reaction to a failed call found the peer listed and returned Ok:
        // it is that call that took the peer off the list, so the event says Requested
        for (t, a, bpeer, listed, ok) in reactive.lock().unwrap().iter() {
            if !*listed || !*ok || slots[*a].incarnation > 0 {
                continue;
            }
            let log = slots[*a].log.lock().unwrap().clone();
            let ev = log.iter().find(|(te, e)| *te + 2_000_000 >= *t && matches!(e, PeerEvent::LostPeer(q, _) if *q == ids[*bpeer]));
            match ev {
                Some((_, PeerEvent::LostPeer(_, DisconnectReason::Requested))) => w.probe("reactive-disconnect-found-the-peer-listed"),
                Some((te, e)) => w.violate("disconnect-without-lostpeer-requested", "reactive", format!("n{a} disconnected n{bpeer} at {} ms in reaction to a failed call, found it listed and got Ok, but the event published is {e:?} (at {} ms)", t / 1_000_000, te / 1_000_000)),
                None => w.violate("disconnect-without-lostpeer-requested", "reactive", format!("n{a} disconnected n{bpeer} at {} ms (listed, Ok) and no LostPeer followed", t / 1_000_000)),
            }
        }
        // (1) mutual views, and every listed peer answers.
        // QUIC's effective idle timeout is max(idle timeout, 3 x PTO) (RFC 9000 10.1). Loss during
        // a handshake or a survived partition legitimately yields RTT samples up to S = the
        // connect timeout / the effective idle timeout, hence PTO <= srtt + 4 rttvar + 25 ms <= 5 S
        // and an effective idle timeout of up to 15 S. In the fault-free configuration the plain
        // bound applies; in faulty runs the verdict waits (polling) up to that cap.
        let t_quiet = w.now_ns() - tail_ms * 1_000_000;
        let cap_ms = if faulty { 16 * connect_timeout_ms.max(idle_ms + ka_ms.unwrap_or(0)) } else { 0 };
        let mut views: Vec<BTreeSet<PeerId>>;
        loop {
            views = slots.iter().map(|s| s.node.net.peers().into_iter().collect()).collect();
            let mutual = (0..n).all(|a| (0..n).all(|b| a == b || views[a].contains(&ids[b]) == views[b].contains(&ids[a])));
            if mutual || (w.now_ns() - t_quiet) / 1_000_000 >= tail_ms + cap_ms {
                break;
            }
            w.probe("quiescence-poll-extended(inflated-pto)");
            sleep_ms(1_000).await;
        }
        for a in 0..n {
            for b in 0..n {
                if a != b && views[a].contains(&ids[b]) != views[b].contains(&ids[a]) {
                    w.violate("views-not-mutual", "quiescence", format!("{} ms after the last fault (idle timeout {idle_ms} ms) n{a} lists n{b} = {}, n{b} lists n{a} = {}", (w.now_ns() - t_quiet) / 1_000_000, views[a].contains(&ids[b]), views[b].contains(&ids[a])));
                }
            }
        }
        if ka_effective.is_some() && !w.violated() {
            for a in 0..n {
                for b in 0..n {
                    if a != b && views[a].contains(&ids[b]) {
                        let pr = probe(&w, &slots[a].node, ids[b], 9, Duration::from_secs(10)).await;
                        if let Err(e) = pr {
                            w.violate("listed-peer-unreachable", "quiescence", format!("n{a} lists n{b} after the fault-free tail but an RPC fails: {e}"));
                        }
                    }
                }
            }
        }
        // (1b) a close that got through (explicit disconnect on a clean, loss-free network) is
        // reported by the other side one link latency later, whatever that side's handlers are
        // doing at that moment
        {
            let logs: Vec<Vec<(u64, PeerEvent)>> = slots.iter().map(|s| s.log.lock().unwrap().clone()).collect();
            for (t, a, b) in &clean_disconnects {
                if slots[*a].incarnation > 0 || slots[*b].incarnation > 0 {
                    continue;
                }
                // did b list a at that instant?
                let mut listed = false;
                let mut lost_at = None;
                for (tb, eb) in &logs[*b] {
                    match eb {
                        PeerEvent::NewPeer(q) if *q == ids[*a] && *tb <= *t => listed = true,
                        PeerEvent::LostPeer(q, _) if *q == ids[*a] && *tb < *t => listed = false,
                        PeerEvent::LostPeer(q, _) if *q == ids[*a] && *tb >= *t && lost_at.is_none() => lost_at = Some(*tb),
                        _ => {}
                    }
                }
                if !listed {
                    continue;
                }
                let slack = (2 * lat_max / 1000 + 20 + if busy_handlers { 60 } else { 0 }) * 1_000_000;
                let limit = t + slack;
                // a second connection between the two registered around that instant (a re-dial
                // racing the disconnect): which of the two got closed is not decidable from outside
                let racing = |log: &Vec<(u64, PeerEvent)>, other: PeerId| log.iter().any(|(tx, ex)| matches!(ex, PeerEvent::NewPeer(q) if *q == other) && *tx + slack >= *t && *tx <= limit);
                if racing(&logs[*b], ids[*a]) || racing(&logs[*a], ids[*b]) {
                    continue;
                }
                // one of the two was cut off before the close could travel (the very next operation,
                // possibly in the same millisecond)
                if isolations.iter().any(|(ti, k)| (*k == *a || *k == *b) && *ti >= *t && *ti <= limit) {
                    continue;
                }
                w.probe("clean-disconnect-propagation-checked");
                match lost_at {
                    Some(tl) if tl <= limit => {}
                    other => w.violate(
                        "close-not-reported-promptly-by-the-other-side",
                        "explicit-disconnect",
                        format!("n{a} disconnected n{b} at {} ms on a loss-free network (latency <= {} us); n{b} reported LostPeer {}", t / 1_000_000, lat_max, match other { Some(tl) => format!("only {} ms later", (tl - t) / 1_000_000), None => "never".into() }),
                    ),
                }
            }
        }
        // (2) every loss seen by one side is seen by the other within the bound. Exact bound only
        // in the fault-free configuration (no inflated PTO, see above); faulty runs are judged by (1).
        let now = if faulty { 0 } else { w.now_ns() };
        let logs: Vec<Vec<(u64, PeerEvent)>> = slots.iter().map(|s| s.log.lock().unwrap().clone()).collect();
        for a in 0..n {
            if slots[a].incarnation > 0 {
                continue; // logs of earlier incarnations are gone; restarts are judged by (1)
            }
            for (idx, (t, ev)) in logs[a].iter().enumerate() {
                let PeerEvent::LostPeer(p, reason) = ev else { continue };
                let Some(b) = ids.iter().position(|x| x == p) else { continue };
                if slots[b].incarnation > 0 || panicked == Some(b) {
                    continue;
                }
                let deadline = t + bound_ns;
                if deadline > now {
                    continue;
                }
                // was b, at the deadline, still listing a through a connection that predates the loss?
                let mut listed = false;
                let mut listed_since = 0u64;
                for (tb, eb) in &logs[b] {
                    if *tb > deadline {
                        break;
                    }
                    match eb {
                        PeerEvent::NewPeer(q) if *q == ids[a] => {
                            if !listed {
                                listed_since = *tb;
                            }
                            listed = true;
                        }
                        PeerEvent::LostPeer(q, _) if *q == ids[a] => listed = false,
                        _ => {}
                    }
                }
                // (a listing that began after the loss belongs to a newer connection)
                if listed && listed_since <= *t + 2_000_000 {
                    // legitimate only if a itself got a newer connection with b in the meantime
                    let renewed = logs[a][idx + 1..].iter().any(|(ta, ea)| *ta <= deadline && matches!(ea, PeerEvent::NewPeer(q) if q == p));
                    if !renewed {
                        w.violate(
                            "loss-not-propagated-within-idle-timeout",
                            format!("{reason:?}"),
                            format!("n{a} reported LostPeer(n{b},{reason:?}) at {} ms; {} ms later (idle {idle_ms} + keep-alive {:?} + latency) n{b} still lists n{a} and n{a} has no newer connection", t / 1_000_000, bound_ns / 1_000_000, ka_ms),
                        );
                    }
                }
            }
        }
    }
    if mode == Mode::C04 && !w.violated() {
        // a node only serves peers it lists: every request a handler saw came from a peer that was
        // in the connected set at that instant (a request served for an unlisted peer means a
        // second, unregistered connection to that identity is still alive)
        for (a, s) in slots.iter().enumerate() {
            let log = s.log.lock().unwrap().clone();
            for seen in s.svc.seen() {
                let Some(p) = seen.peer else { continue };
                let mut listed = false;
                let mut ambiguous = false;
                for (t, e) in &log {
                    let (is_new, q) = match e {
                        PeerEvent::NewPeer(q) => (true, q),
                        PeerEvent::LostPeer(q, _) => (false, q),
                    };
                    if *q != p {
                        continue;
                    }
                    // (events are stamped when the observer task receives them: with busy handlers
                    // the process is one busy thread and the observer runs late - sweep seed 1005,
                    // NewPeer seen 3.8 ms after the request it made possible)
                    if t.abs_diff(seen.at_ns) <= 2_000_000 + if busy_handlers { 60_000_000 } else { 0 } {
                        ambiguous = true;
                    }
                    if *t <= seen.at_ns {
                        listed = is_new;
                    }
                }
                if !listed && !ambiguous {
                    w.violate("request-served-for-unlisted-peer", "handler", format!("n{a} served a request of {} at {} ms although it did not list that peer then: an unregistered connection to it is still alive", w.pname(&p), seen.at_ns / 1_000_000));
                    break;
                }
            }
        }
    }
    if interesting {
        w.mark_overlap();
    }
    w.probe_n("disconnect-checks", disconnect_checks);
    let lost: BTreeMap<String, u64> = slots.iter().flat_map(|s| s.log.lock().unwrap().clone()).fold(BTreeMap::new(), |mut m, (_, e)| {
        if let PeerEvent::LostPeer(_, r) = e {
            *m.entry(format!("lost-{r:?}")).or_default() += 1;
        }
        m
    });
    for (k, v) in lost {
        w.probe_n(&k, v);
    }
    w.sample("history", json!({"nodes": n, "idle_ms": idle_ms, "keepalive_ms": ka_ms, "faulty": faulty, "ops": op_log}));
    let out = w.finish();
    drop(slots);
    out
}
