//! One scenario (workload + oracle + fault space) per claimed property.

use crate::runner::Scenario;

pub mod common;
pub mod layers;
pub mod direct;
pub mod lifecycle;
pub mod c01;
pub mod c02;
pub mod c03;
pub mod c05;
pub mod c06;
pub mod c07;
pub mod c08;
pub mod c10;
pub mod c11;
pub mod c12;
pub mod c13;
pub mod c14;
pub mod c15;

pub fn all() -> Vec<&'static Scenario> {
    vec![&c01::IDENTITY, &c01::VERIFIERS, &c02::RPC, &c03::EXPECTED, &lifecycle::C04_HISTORY, &direct::C04_DIRECT, &direct::C04_EXHAUSTIVE, &c05::MUTUAL, &direct::C05_DIRECT, &c06::HOSTILE, &c07::STREAM, &c07::CLOSED_SETS, &c08::SHUTDOWN, &lifecycle::C09_HISTORY, &c10::ADMISSION, &c11::DEADLINE, &c12::ABANDON, &c13::BACKGROUND, &c14::NAMES, &c15::LIMITS, &layers::C18_DIRECT, &layers::C18_NET, &layers::C19_DIRECT, &layers::C19_VIRTUAL, &layers::C19_NET, &layers::C20_DIRECT, &layers::C20_NET]
}

pub fn for_property(id: &str) -> Vec<&'static Scenario> {
    all().into_iter().filter(|s| s.id == id).collect()
}

pub const REAL_NET: &[&str] = &[
    "anemo (Network, ConnectionManager, request handlers, wire codec, middleware; real Builder::start wiring)",
    "quinn + quinn-proto (QUIC handshake, streams, flow/congestion control, loss recovery, idle/keep-alive timers)",
    "rustls + ring + webpki + x509-parser (real TLS 1.3 handshakes, certificates, signatures)",
    "tokio sync primitives, JoinSet, broadcast, timer wheel (virtual clock)",
    "tower, tokio-util length-delimited codec, bincode",
];

pub const STUB_NET: &[&str] = &[
    "UDP socket (SimSocket on the in-memory fabric)",
    "network delivery (fabric: seeded delay, loss, duplication, reordering, corruption, partitions, stalls)",
    "clock (tokio paused clock; quinn timers via Runtime seam)",
    "task scheduling (single-threaded tokio runtime, seeded select! order)",
    "quinn randomness (EndpointConfig::rng_seed)",
    "connectivity-check jitter and eligible-dial order (hooks H3/H4)",
    "resolution of literal socket addresses (hook H5)",
    "shutdown rebind sockets (NullSocket)",
    "user services (harness tower services)",
];
