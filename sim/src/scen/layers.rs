//! C18 (per-peer in-flight limit), C19 (per-peer rate limit, frozen-clock regime) and C20
//! (authorization layer): the real anemo-tower layers under the simulator's scheduler and
//! virtual clock, driven directly through clones and end to end behind a Network.

use super::common::*;
use crate::fabric::LinkCfg;
use crate::runner::{ScenFuture, Scenario};
use crate::world::*;
use anemo::rpc::Status;
use anemo::types::response::{IntoResponse, StatusCode};
use anemo::{PeerId, Request, Response};
use anemo_tower::auth::{AllowedPeers, RequireAuthorizationLayer};
use anemo_tower::inflight_limit::{InflightLimitLayer, WaitMode};
use bytes::Bytes;
use rand::Rng;
use serde_json::json;
use std::collections::{BTreeMap, BTreeSet};
use std::convert::Infallible;
use std::future::Future;
use std::pin::Pin;
use std::sync::{Arc, Mutex};
use std::task::{Context, Poll};
use std::time::Duration;
use tower::{Layer, Service, ServiceExt};

const LAYER_REAL: &[&str] = &["anemo-tower layer under test (real code)", "tokio semaphore / dashmap / governor", "tower"];
const LAYER_REAL_VCLOCK: &[&str] = &["anemo-tower rate-limit layer under test (real code)", "governor 0.6.3 (real GCRA, keyed state store and MonotonicClock; source unchanged, quanta feature off)", "tower", "tokio timers"];
const LAYER_STUB: &[&str] = &["wrapped service (harness: gauge, log, PRNG duration and outcome)", "callers (harness tasks with PRNG arrival and cancellation instants)", "clock (tokio paused clock)"];

pub static C18_DIRECT: Scenario = Scenario {
    id: "C18",
    name: "c18-inflight-direct",
    run: run_c18_direct,
    quick_runs: 20_000,
    thorough_runs: 1_000_000,
    rule: "one run = one real InflightLimitLayer (limit 0-4, Block or ReturnError) shared by clones, 2-4 peers, 10-200 requests with PRNG arrival instants, inner durations, outcomes (Ok / error status) and cancellation instants (while waiting for a permit or inside the service), then limit-many simultaneous requests per peer; per-peer gauge and admission order checked against a reference semaphore model; distinct = distinct order signature (arrival / start / end / refusal events); non-trivial = the limit was reached at least once",
    real: LAYER_REAL,
    stubbed: LAYER_STUB,
};

pub static C18_NET: Scenario = Scenario {
    id: "C18",
    name: "c18-inflight-network",
    run: run_c18_net,
    quick_runs: 4000,
    thorough_runs: 60_000,
    rule: "one run = a server Network whose service is wrapped in the real InflightLimitLayer and 2-3 client Networks issuing concurrent RPCs (the peer identity comes from the simulated handshake), over a clean or lossy fabric; distinct = distinct order signature; non-trivial = the limit was reached",
    real: super::REAL_NET,
    stubbed: super::STUB_NET,
};

pub static C19_DIRECT: Scenario = Scenario {
    id: "C19",
    name: "c19-ratelimit-frozen-clock",
    run: run_c19,
    quick_runs: 20_000,
    thorough_runs: 1_000_000,
    rule: "one run = one real RateLimitLayer with a quota whose replenishment period (1 hour per cell) exceeds the run's wall time by six orders of magnitude (frozen-clock regime), burst 1-8, 1-4 peers, both wait modes, 5-80 concurrent arrivals through clones in PRNG order; distinct = distinct order signature; non-trivial = at least one request over quota",
    real: LAYER_REAL,
    stubbed: &["wrapped service and callers (harness)", "scheduler (seeded order of runnable tasks)", "clock: governor's MonotonicClock on simulated time, futures-timer replaced by a Delay on the simulated tokio clock (vendored, DESIGN.md 13.7); this scenario keeps the frozen regime (one cell per hour), c19-ratelimit-virtual-clock explores replenishment"],
};

pub static C19_VIRTUAL: Scenario = Scenario {
    id: "C19",
    name: "c19-ratelimit-virtual-clock",
    run: run_c19_virtual,
    quick_runs: 20_000,
    thorough_runs: 1_000_000,
    rule: "one run = one real RateLimitLayer (governor's GCRA on its MonotonicClock, which follows simulated time; waits on simulated timers) with burst 1-8 and a replenishment period of 2 ms - 2 s per cell, 1-4 peers, 5-120 requests arriving at PRNG instants over up to 40 periods through clones and through several services made by the same layer, both wait modes, cancellation of waiting requests in some Block runs; oracle = the window bound of the statement over every pair of admissions of a peer, an exact GCRA reference model for every ReturnError decision and hint, and for Block the greedy per-peer schedule (k-th admission neither earlier than possible nor later than possible + 3 ms, whatever other peers do); distinct = distinct order signature (per-peer admission pattern); non-trivial = at least one request over quota",
    real: LAYER_REAL_VCLOCK,
    stubbed: &["wrapped service and callers (harness)", "scheduler (seeded order of runnable tasks)", "clock: governor reads std::time::Instant through its own MonotonicClock (vendored manifest: quanta feature off), which the simulator's clock seam answers with simulated time", "futures-timer (governor's wait) replaced by a Delay on the simulated tokio clock"],
};

pub static C19_NET: Scenario = Scenario {
    id: "C19",
    name: "c19-ratelimit-network",
    run: run_c19_net,
    quick_runs: 4000,
    thorough_runs: 60_000,
    rule: "one run = a server Network whose service is wrapped in the real RateLimitLayer (burst 1-4, one cell per 20-500 ms) and 2-3 client Networks issuing RPCs at PRNG instants over a clean or lossy fabric, some of them over a second connection that replaces the first (the quota belongs to the peer, not to the connection) and with a forged peer-id header; oracle = the server-side admission instants of every client against the bucket replay (burst cells; burst+1 = known finding F-D), every admitted request attributed to the client that sent it, refusals never reach the service and carry a hint, Block mode refuses nothing and serves everything in the end; distinct = distinct order signature; non-trivial = at least one request over quota",
    real: super::REAL_NET,
    stubbed: super::STUB_NET,
};

pub static C20_DIRECT: Scenario = Scenario {
    id: "C20",
    name: "c20-auth-direct",
    run: run_c20_direct,
    quick_runs: 20_000,
    thorough_runs: 1_000_000,
    rule: "one run = one real RequireAuthorizationLayer (peer allow-list or a closure authorizer returning PRNG responses) shared by clones, 10-100 concurrent requests with listed, unlisted and absent sender identities and PRNG inner durations; distinct = distinct order signature; non-trivial = at least one refusal and one acceptance",
    real: LAYER_REAL,
    stubbed: LAYER_STUB,
};

pub static C20_NET: Scenario = Scenario {
    id: "C20",
    name: "c20-auth-network",
    run: run_c20_net,
    quick_runs: 4000,
    thorough_runs: 60_000,
    rule: "one run = a server Network behind RequireAuthorizationLayer(AllowedPeers(L)) with 3-5 client Networks of which a PRNG subset is in L (sender identity = what the simulated TLS handshake authenticated), concurrent requests over a clean or lossy fabric; distinct = distinct order signature; non-trivial = both listed and unlisted senders called",
    real: super::REAL_NET,
    stubbed: super::STUB_NET,
};

/// Identities of the simulated senders: all bytes different from one another, or - in part of the
/// runs - identical except for two bytes near the end (whatever a layer keys its per-peer state
/// by, two peers are two peers).
fn peer_ids(w: &World, n: usize) -> Vec<PeerId> {
    if w.flag("ids_share_their_leading_bytes", 0.4) {
        (0..n)
            .map(|i| {
                let mut a = [0xAB; 32];
                a[20] = (i as u8).wrapping_mul(7);
                a[31] = i as u8 + 1;
                PeerId(a)
            })
            .collect()
    } else {
        (0..n).map(|i| PeerId([i as u8 + 1; 32])).collect()
    }
}

// ---------------------------------------------------------------------------------------------
// inner service with a per-peer gauge
// ---------------------------------------------------------------------------------------------

#[derive(Default)]
struct Inner {
    gauge: BTreeMap<PeerId, i64>,
    max_gauge: BTreeMap<PeerId, i64>,
    /// (request id, start ns, end ns or None, peer)
    log: Vec<(u64, u64, Option<u64>, Option<PeerId>)>,
}

#[derive(Clone)]
struct GaugeSvc {
    st: Arc<Mutex<Inner>>,
    fabric: crate::fabric::Fabric,
}

struct GaugeGuard {
    st: Arc<Mutex<Inner>>,
    fabric: crate::fabric::Fabric,
    peer: Option<PeerId>,
    id: u64,
}

impl Drop for GaugeGuard {
    fn drop(&mut self) {
        let now = self.fabric.now_ns();
        let mut s = self.st.lock().unwrap();
        if let Some(p) = self.peer {
            *s.gauge.entry(p).or_default() -= 1;
        }
        if let Some(e) = s.log.iter_mut().find(|e| e.0 == self.id) {
            e.2 = Some(now);
        }
    }
}

impl Service<Request<Bytes>> for GaugeSvc {
    type Response = Response<Bytes>;
    type Error = Status;
    type Future = Pin<Box<dyn Future<Output = Result<Response<Bytes>, Status>> + Send>>;
    fn poll_ready(&mut self, _: &mut Context<'_>) -> Poll<Result<(), Status>> {
        Poll::Ready(Ok(()))
    }
    fn call(&mut self, req: Request<Bytes>) -> Self::Future {
        let id: u64 = req.headers().get("id").and_then(|v| v.parse().ok()).unwrap_or(u64::MAX);
        let dur: u64 = req.headers().get("dur-ms").and_then(|v| v.parse().ok()).unwrap_or(0);
        let fail = req.headers().contains_key("fail");
        let instant = req.headers().contains_key("instant");
        let peer = req.peer_id().copied();
        let now = self.fabric.now_ns();
        {
            let mut s = self.st.lock().unwrap();
            if let Some(p) = peer {
                let g = s.gauge.entry(p).or_default();
                *g += 1;
                let g = *g;
                let m = s.max_gauge.entry(p).or_default();
                *m = (*m).max(g);
            }
            s.log.push((id, now, None, peer));
        }
        let guard = GaugeGuard { st: self.st.clone(), fabric: self.fabric.clone(), peer, id };
        Box::pin(async move {
            let _g = guard;
            if !instant {
                tokio::time::sleep(Duration::from_millis(dur)).await;
            }
            if fail {
                Err(Status::new(StatusCode::InternalServerError))
            } else {
                Ok(Response::new(Bytes::from(id.to_string())))
            }
        })
    }
}

/// Adapter: `Error = Status` services become `Error = Infallible` (what a Network serves).
#[derive(Clone)]
struct StatusToResponse<S>(S);

impl<S> Service<Request<Bytes>> for StatusToResponse<S>
where
    S: Service<Request<Bytes>, Response = Response<Bytes>, Error = Status>,
    S::Future: Send + 'static,
{
    type Response = Response<Bytes>;
    type Error = Infallible;
    type Future = Pin<Box<dyn Future<Output = Result<Response<Bytes>, Infallible>> + Send>>;
    fn poll_ready(&mut self, _: &mut Context<'_>) -> Poll<Result<(), Infallible>> {
        Poll::Ready(Ok(()))
    }
    fn call(&mut self, req: Request<Bytes>) -> Self::Future {
        let f = self.0.call(req);
        Box::pin(async move {
            Ok(match f.await {
                Ok(r) => r,
                Err(s) => s.into_response(),
            })
        })
    }
}

#[derive(Clone, Debug)]
struct Arrival {
    id: u64,
    peer: usize,
    at_ms: u64,
    dur_ms: u64,
    fail: bool,
    cancel_after_ms: Option<u64>,
}

#[derive(Clone, Debug, PartialEq)]
enum Outcome {
    Ok,
    InnerError,
    TooMany,
    Cancelled,
    Other(String),
}

fn run_c18_direct(input: RunInput) -> ScenFuture {
    Box::pin(async move {
        let w = World::new(&input, LinkCfg::clean(100, 100));
        // (limit 0 is a legal configuration: nothing is ever admitted)
        let limit = w.param("limit", 0, 4) as usize;
        let block = w.flag("block_mode", 0.5);
        let n_peers = w.param("peers", 1, 4) as usize;
        let n_req = w.param("requests", 1, if w.tier == Tier::Quick { 120 } else { 250 }) as u64;
        let spread_ms = w.param("spread_ms", 0, 400) as u64;
        let mut r = w.rng("wl:c18");
        let peers: Vec<PeerId> = peer_ids(&w, n_peers);
        let inner = GaugeSvc { st: Default::default(), fabric: w.fabric.clone() };
        let layer = InflightLimitLayer::new(limit, if block { WaitMode::Block } else { WaitMode::ReturnError });
        // every caller uses its own clone of the layered service (as connection handlers do)
        let layered = layer.layer(inner.clone());
        let mut plan = Vec::new();
        for id in 0..n_req {
            plan.push(Arrival {
                id,
                peer: r.gen_range(0..n_peers),
                // arrivals at odd milliseconds, odd durations and cancellation delays: completions and
                // cancellations fall on even milliseconds and never coincide with an arrival
                at_ms: 2 * r.gen_range(0..=spread_ms / 2) + 1,
                dur_ms: 2 * r.gen_range(0..60) + 1,
                fail: r.gen_bool(0.15),
                cancel_after_ms: r.gen_bool(0.25).then(|| 2 * r.gen_range(0..40) + 1),
            });
        }
        if limit == 0 && block {
            // every request waits for ever: all of them are abandoned at some point
            for a in plan.iter_mut() {
                a.cancel_after_ms = a.cancel_after_ms.or(Some(2 * (a.id % 40) + 1));
            }
        }
        let results: Arc<Mutex<BTreeMap<u64, (Outcome, u64)>>> = Default::default();
        // the callers may keep the responses they got (a batch that collects them): a request is
        // finished when its response has been produced, whoever still holds that response
        let keep_responses = w.flag("callers_keep_their_responses", 0.3);
        let kept: Arc<Mutex<Vec<Response<Bytes>>>> = Default::default();
        let mut tasks = Vec::new();
        for a in plan.clone() {
            let (svc, results, w2, pid) = (layered.clone(), results.clone(), w.clone(), peers[a.peer]);
            let kept = kept.clone();
            tasks.push(tokio::spawn(async move {
                sleep_ms(a.at_ms).await;
                let mut req = Request::new(Bytes::new()).with_extension(pid).with_header("id", a.id.to_string()).with_header("dur-ms", a.dur_ms.to_string());
                // (a deadline the caller states is the timeout layers' business: this layer admits,
                // refuses and keeps waiting exactly as without it)
                if a.id % 5 == 2 {
                    req = req.with_header("timeout", (1_000_000 * (1 + a.id % 7)).to_string());
                }
                if a.fail {
                    req = req.with_header("fail", "1");
                }
                w2.event(format!("a{}", a.id));
                let fut = svc.oneshot(req);
                let res = match a.cancel_after_ms {
                    Some(c) => match tokio::time::timeout(Duration::from_millis(c), fut).await {
                        Ok(r) => Some(r),
                        Err(_) => None,
                    },
                    None => Some(fut.await),
                };
                let out = match res {
                    None => Outcome::Cancelled,
                    Some(Ok(resp)) => {
                        if keep_responses {
                            kept.lock().unwrap().push(resp);
                        }
                        Outcome::Ok
                    }
                    Some(Err(s)) if s.status() == StatusCode::TooManyRequests => Outcome::TooMany,
                    Some(Err(s)) if s.status() == StatusCode::InternalServerError && a.fail => Outcome::InnerError,
                    Some(Err(s)) => Outcome::Other(format!("{:?}", s.status())),
                };
                w2.event(format!("e{}:{out:?}", a.id));
                results.lock().unwrap().insert(a.id, (out, w2.now_ns()));
            }));
        }
        if tokio::time::timeout(Duration::from_secs(3600), futures::future::join_all(tasks)).await.is_err() {
            w.violate("request-never-completes", if block { "block" } else { "return-error" }, "requests still pending an hour after the last arrival: a permit was leaked or a waiter was never woken".to_string());
        }
        let results = results.lock().unwrap().clone();
        let key = format!("limit={limit} mode={}", if block { "block" } else { "return-error" });
        // ---- replay the history against a reference semaphore ----
        let log = inner.st.lock().unwrap().log.clone();
        let maxg = inner.st.lock().unwrap().max_gauge.clone();
        let mut reached = false;
        for (p, m) in &maxg {
            if *m as usize > limit {
                w.violate("inflight-limit-exceeded", key.clone(), format!("{m} requests of peer {} executed inside the wrapped service at once (limit {limit})", p.0[31]));
            }
            if *m as usize == limit {
                reached = true;
            }
        }
        let started: BTreeMap<u64, (u64, Option<u64>)> = log.iter().map(|e| (e.0, (e.1, e.2))).collect();
        for a in &plan {
            let Some((out, _)) = results.get(&a.id) else { continue };
            let at = a.at_ms * 1_000_000;
            // requests of the same peer executing at the arrival instant (arrivals and completions
            // never share a millisecond by construction)
            let busy = log.iter().filter(|e| e.3 == Some(peers[a.peer]) && e.0 != a.id && e.1 <= at && e.2.map(|t| t > at).unwrap_or(true)).count();
            match (block, out) {
                (false, Outcome::TooMany) => {
                    w.check(!started.contains_key(&a.id), "refused-request-reached-service", key.clone(), || format!("request {} was answered TooManyRequests but also reached the wrapped service", a.id));
                    // refused although a slot was free? other arrivals of the same millisecond make this ambiguous
                    let same_ms = plan.iter().filter(|b| b.peer == a.peer && b.at_ms == a.at_ms).count();
                    if busy + same_ms - 1 < limit {
                        w.violate("refused-below-limit", key.clone(), format!("request {} of peer {} refused at {} ms with only {busy} of {limit} slots busy", a.id, a.peer, a.at_ms));
                    }
                }
                (false, o) if *o != Outcome::Cancelled || started.contains_key(&a.id) => {
                    w.check(started.get(&a.id).map(|s| s.0 == at).unwrap_or(false), "admitted-request-did-not-start-at-once", key.clone(), || format!("request {} admitted in ReturnError mode but started at {:?}, arrival {} ms", a.id, started.get(&a.id), a.at_ms));
                }
                (true, Outcome::TooMany) => w.violate("block-mode-refused", key.clone(), format!("request {} refused in Block mode", a.id)),
                (true, _) => {
                    if let Some((s, _)) = started.get(&a.id) {
                        // never waits while a slot is free
                        let same_ms = plan.iter().filter(|b| b.peer == a.peer && b.at_ms == a.at_ms).count();
                        if busy + same_ms - 1 < limit && *s != at {
                            w.violate("waited-although-slot-free", key.clone(), format!("request {} of peer {} arrived at {} ms with {busy} of {limit} slots busy but started at {} ms", a.id, a.peer, a.at_ms, s / 1_000_000));
                        }
                    } else if *out != Outcome::Cancelled {
                        w.violate("completed-without-reaching-service", key.clone(), format!("request {}: {out:?}", a.id));
                    }
                }
                _ => {}
            }
            if let Outcome::Other(s) = out {
                w.violate("unexpected-status", key.clone(), format!("request {}: {s}", a.id));
            }
        }
        // ---- no capacity leaked: limit-many simultaneous requests per peer all run at once,
        //      and a saturated peer does not delay another ----
        sleep_ms(10).await;
        for (pi, p) in peers.iter().enumerate() {
            let before = inner.st.lock().unwrap().log.len();
            let mut hs = Vec::new();
            for k in 0..limit {
                let req = Request::new(Bytes::new()).with_extension(*p).with_header("id", (1_000_000 + pi * 10 + k).to_string()).with_header("dur-ms", "50");
                hs.push(tokio::spawn(layered.clone().oneshot(req)));
            }
            sleep_ms(1).await;
            let running = inner.st.lock().unwrap().log.len() - before;
            if running != limit {
                w.violate("capacity-leaked", key.clone(), format!("after the history only {running} of {limit} simultaneous requests of peer {pi} were admitted at once"));
            }
            // while this peer is saturated, the next peer is admitted immediately
            if n_peers > 1 && limit > 0 {
                let q = peers[(pi + 1) % n_peers];
                let req = Request::new(Bytes::new()).with_extension(q).with_header("id", (2_000_000 + pi).to_string()).with_header("dur-ms", "0");
                let r = tokio::time::timeout(Duration::from_millis(5), layered.clone().oneshot(req)).await;
                w.check(matches!(r, Ok(Ok(_))), "peers-share-capacity", key.clone(), || format!("with peer {pi} saturated, a request of another peer was not served at once: {:?}", r.map(|x| x.map(|_| ()).map_err(|s| s.status()))));
            }
            for h in hs {
                // (with a leaked permit some of these never finish: do not wait for them)
                if tokio::time::timeout(Duration::from_secs(10), h).await.is_err() {
                    break;
                }
            }
        }
        // ---- one task working through a backlog: hundreds of requests one after the other through
        //      one clone, with handlers that answer at once, so the task never yields in between
        //      (what a dispatcher in front of the layer does; tokio's cooperative budget of the
        //      task is used up on the way). Never more than one request is in flight, so with a
        //      limit of at least one every single one is served ----
        if limit > 0 && !w.violated() && w.flag("dispatcher_works_through_a_backlog", 0.3) {
            let n_backlog = w.param("backlog", 130, 700) as u64;
            let mut svc = layered.clone();
            let mut refused = Vec::new();
            for k in 0..n_backlog {
                let p = peers[(k as usize) % n_peers];
                let mut req = Request::new(Bytes::new()).with_extension(p).with_header("id", (3_000_000 + k).to_string()).with_header("instant", "1");
                if k % 7 == 3 {
                    req = req.with_header("fail", "1");
                }
                match tokio::time::timeout(Duration::from_secs(5), svc.ready().await.unwrap().call(req)).await {
                    Ok(Ok(_)) => {}
                    Ok(Err(s)) if s.status() == StatusCode::InternalServerError && k % 7 == 3 => {}
                    Ok(Err(s)) => refused.push((k, format!("{:?}", s.status()))),
                    Err(_) => refused.push((k, "never answered".into())),
                }
            }
            if let Some((k, what)) = refused.first() {
                w.violate("refused-below-limit", format!("{key} backlog"), format!("request {k} of a backlog of {n_backlog} worked through by one task (one request at a time, limit {limit}): {what}; {} of them not served", refused.len()));
            }
            w.probe("backlog-phase");
        }
        if reached {
            w.mark_overlap();
        }
        let n_refused = results.values().filter(|r| r.0 == Outcome::TooMany).count();
        w.probe_n("refused", n_refused as u64);
        w.probe_n("cancelled", results.values().filter(|r| r.0 == Outcome::Cancelled).count() as u64);
        drop(kept);
        w.sample("history", json!({"limit": limit, "block": block, "peers": n_peers, "requests": n_req, "refused": n_refused, "first": plan.iter().take(6).map(|a| json!({"peer": a.peer, "at_ms": a.at_ms, "dur_ms": a.dur_ms, "fail": a.fail, "cancel_after_ms": a.cancel_after_ms, "outcome": results.get(&a.id).map(|r| format!("{:?}", r.0))})).collect::<Vec<_>>()}));
        w.finish()
    })
}

fn run_c18_net(input: RunInput) -> ScenFuture {
    Box::pin(async move {
        let w = World::new(&input, LinkCfg::clean(200, 4_000));
        let lossy = w.flag("lossy", 0.3);
        let limit = w.param("limit", 1, 3) as usize;
        let block = w.flag("block_mode", 0.5);
        let n_clients = w.param("clients", 2, 3) as usize;
        let n_req = w.param("requests", 1, if w.tier == Tier::Quick { 40 } else { 100 }) as u64;
        let inner = GaugeSvc { st: Default::default(), fabric: w.fabric.clone() };
        let layer = InflightLimitLayer::new(limit, if block { WaitMode::Block } else { WaitMode::ReturnError });
        let cfg = base_config(10_000, Some(2_000));
        let server = w.start_node(w.spec(1, cfg.clone()), StatusToResponse(layer.layer(inner.clone()))).unwrap();
        let mut clients = Vec::new();
        for i in 0..n_clients {
            let c = Arc::new(w.start_node(w.spec(i as u8 + 2, cfg.clone()), Svc::echo(&w)).unwrap());
            // (who dialed a connection is nothing the layer may depend on: about half of the
            // connections are established by the node that serves behind the layer)
            let ok = if w.rng(&format!("cfg:who-dials:{i}")).gen_bool(0.5) {
                w.probe("connection-dialed-by-the-serving-node");
                let ok = server.net.connect_with_peer_id(c.addr, c.peer_id).await.is_ok();
                // (the dialed side registers the connection a moment after the dialer)
                for _ in 0..200 {
                    if c.net.peers().contains(&server.peer_id) {
                        break;
                    }
                    sleep_ms(1).await;
                }
                ok
            } else {
                c.net.connect_with_peer_id(server.addr, server.peer_id).await.is_ok()
            };
            if !ok {
                w.harness_error("setup connect failed");
            }
            clients.push(c);
        }
        let mut link = LinkCfg::clean(200, 4_000);
        if lossy {
            link.drop = w.param("drop_pct", 1, 8) as f64 / 100.0;
        }
        w.fabric.set_default_link(link);
        let mut r = w.rng("wl:c18net");
        let mut tasks = Vec::new();
        let too_many = Arc::new(Mutex::new(0u64));
        for id in 0..n_req {
            let c = clients[r.gen_range(0..n_clients)].clone();
            let (at, dur) = (r.gen_range(0..100u64), r.gen_range(0..150u64));
            let abandon = r.gen_bool(0.2);
            let (sid, w2, tm) = (server.peer_id, w.clone(), too_many.clone());
            tasks.push(tokio::spawn(async move {
                sleep_ms(at).await;
                let req = Request::new(Bytes::new()).with_header("id", id.to_string()).with_header("dur-ms", dur.to_string());
                if abandon {
                    // abandoned by the caller while inside the wrapped service: the slot must be freed
                    let _ = tokio::time::timeout(Duration::from_millis(dur / 2 + 15), c.net.rpc(sid, req)).await;
                    return;
                }
                match rpc_bounded(&c, sid, req, Duration::from_secs(120)).await {
                    Ok(resp) if resp.status() == StatusCode::Success => {
                        if resp.body() != &Bytes::from(id.to_string()) {
                            w2.violate("wrong-response", "net", format!("request {id} got another request's response"));
                        }
                    }
                    Ok(resp) if resp.status() == StatusCode::TooManyRequests => *tm.lock().unwrap() += 1,
                    Ok(resp) => w2.violate("unexpected-status", "net", format!("request {id}: {:?}", resp.status())),
                    Err(e) => {
                        if !lossy || e == "hang" {
                            w2.violate("request-never-completes", "net", format!("request {id}: {e}"));
                        }
                    }
                }
            }));
        }
        futures::future::join_all(tasks).await;
        let key = format!("limit={limit} mode={}", if block { "block" } else { "return-error" });
        // no slot leaked by abandoned or failed calls: limit-many calls per client run at once
        w.fabric.set_faults_enabled(false);
        sleep_ms(if lossy { 12_500 } else { 300 }).await;
        for (ci, c) in clients.iter().enumerate() {
            if c.net.peer(server.peer_id).is_none() {
                continue; // connection lost under loss
            }
            let before = inner.st.lock().unwrap().log.len();
            let calls: Vec<_> = (0..limit).map(|k| {
                let req = Request::new(Bytes::new()).with_header("id", (1_000_000 + ci * 10 + k).to_string()).with_header("dur-ms", "200");
                rpc_bounded(c, server.peer_id, req, Duration::from_secs(30))
            }).collect();
            let probe = async {
                sleep_ms(100).await;
                inner.st.lock().unwrap().log.len() - before
            };
            let (rs, running) = futures::future::join(futures::future::join_all(calls), probe).await;
            if running != limit {
                w.violate("capacity-leaked", key.clone(), format!("after the history only {running} of {limit} simultaneous calls of client {ci} were inside the service at once"));
            }
            if rs.iter().any(|r| !matches!(r, Ok(resp) if resp.status() == StatusCode::Success)) {
                w.violate("capacity-leaked", key.clone(), format!("limit-many fresh calls of client {ci} did not all succeed"));
            }
        }
        let st = inner.st.lock().unwrap();
        let ids: BTreeSet<PeerId> = clients.iter().map(|c| c.peer_id).collect();
        let mut reached = false;
        for (p, m) in &st.max_gauge {
            w.check(ids.contains(p), "request-attributed-to-unknown-peer", key.clone(), || "the limiter saw a peer id that is not a client".into());
            if *m as usize > limit {
                w.violate("inflight-limit-exceeded", key.clone(), format!("{m} requests of one peer inside the wrapped service at once (limit {limit})"));
            }
            reached |= *m as usize == limit;
        }
        if block {
            w.check(*too_many.lock().unwrap() == 0, "block-mode-refused", key.clone(), || "TooManyRequests in Block mode".into());
        }
        if reached {
            w.mark_overlap();
        }
        w.event(format!("{key} refused={}", too_many.lock().unwrap()));
        w.sample("run", json!({"limit": limit, "block": block, "clients": n_clients, "requests": n_req, "refused": *too_many.lock().unwrap()}));
        drop(st);
        let out = w.finish();
        drop((server, clients));
        out
    })
}

// ---------------------------------------------------------------------------------------------
// C19
// ---------------------------------------------------------------------------------------------

fn run_c19(input: RunInput) -> ScenFuture {
    Box::pin(async move {
        use anemo_tower::rate_limit::{RateLimitLayer, WaitMode as RWait, WAIT_NANOS_HEADER};
        let w = World::new(&input, LinkCfg::clean(100, 100));
        let burst = w.param("burst", 1, 8) as u32;
        let block = w.flag("block_mode", 0.5);
        let n_peers = w.param("peers", 1, 4) as usize;
        let n_req = w.param("requests", 1, if w.tier == Tier::Quick { 80 } else { 200 }) as u64;
        let period = Duration::from_secs(3600);
        let quota = governor::Quota::with_period(period).unwrap().allow_burst(std::num::NonZeroU32::new(burst).unwrap());
        let inner = GaugeSvc { st: Default::default(), fabric: w.fabric.clone() };
        let layer = RateLimitLayer::new(quota, if block { RWait::Block } else { RWait::ReturnError });
        let layered = layer.layer(inner.clone());
        let peers: Vec<PeerId> = peer_ids(&w, n_peers);
        let mut r = w.rng("wl:c19");
        let results: Arc<Mutex<Vec<(u64, usize, Option<Result<(), (StatusCode, Option<String>)>>)>>> = Default::default();
        let mut tasks = Vec::new();
        let mut per_peer = vec![0u64; n_peers];
        for id in 0..n_req {
            let p = r.gen_range(0..n_peers);
            per_peer[p] += 1;
            let at = r.gen_range(0..20u64);
            let (svc, results, pid) = (layered.clone(), results.clone(), peers[p]);
            let idx = {
                let mut g = results.lock().unwrap();
                g.push((id, p, None));
                g.len() - 1
            };
            tasks.push(tokio::spawn(async move {
                sleep_ms(at).await;
                let mut req = Request::new(Bytes::new()).with_extension(pid).with_header("id", id.to_string()).with_header("dur-ms", "3");
                // (a deadline the caller states is the timeout layers' business, not this layer's)
                if id % 5 == 2 {
                    req = req.with_header("timeout", (200_000 * (1 + id % 7)).to_string());
                }
                let res = svc.oneshot(req).await;
                results.lock().unwrap()[idx].2 = Some(res.map(|_| ()).map_err(|s| (s.status(), s.headers().get(WAIT_NANOS_HEADER).cloned())));
            }));
        }
        // in Block mode the requests over quota wait for (real) hours: give everything else time
        // to finish, then look
        sleep_ms(200).await;
        let key = format!("burst={burst} mode={}", if block { "block" } else { "return-error" });
        let results = results.lock().unwrap().clone();
        let log = inner.st.lock().unwrap().log.clone();
        let mut over = false;
        for (pi, p) in peers.iter().enumerate() {
            let admitted = log.iter().filter(|e| e.3 == Some(*p)).count() as u64;
            let want = per_peer[pi].min(burst as u64);
            if per_peer[pi] > burst as u64 {
                over = true;
            }
            if admitted > burst as u64 {
                w.violate("quota-exceeded", key.clone(), format!("{admitted} requests of peer {pi} reached the service within milliseconds; burst is {burst} and the period one hour"));
            } else if admitted != want {
                w.violate("quota-not-per-peer", key.clone(), format!("peer {pi} sent {} requests, burst {burst}: {admitted} were admitted (expected {want}); other peers' traffic must not consume its quota", per_peer[pi]));
            }
            let pending = results.iter().filter(|x| x.1 == pi && x.2.is_none()).count() as u64;
            let refused: Vec<_> = results.iter().filter(|x| x.1 == pi && matches!(&x.2, Some(Err(_)))).collect();
            if block {
                w.check(refused.is_empty(), "block-mode-refused", key.clone(), || format!("{} requests refused in Block mode", refused.len()));
                w.check(pending == per_peer[pi] - want, "over-quota-request-not-held-back", key.clone(), || format!("peer {pi}: {pending} requests pending, expected {}", per_peer[pi] - want));
            } else {
                w.check(pending == 0, "request-never-completes", key.clone(), || format!("{pending} requests pending in ReturnError mode"));
                w.check(refused.len() as u64 == per_peer[pi] - want, "over-quota-request-not-refused", key.clone(), || format!("peer {pi}: {} refusals, expected {}", refused.len(), per_peer[pi] - want));
                for x in refused {
                    if let Some(Err((status, hint))) = &x.2 {
                        let ok = *status == StatusCode::TooManyRequests && hint.as_ref().and_then(|h| h.parse::<u128>().ok()).map(|n| n > 0 && n <= period.as_nanos()).unwrap_or(false);
                        w.check(ok, "refusal-without-valid-wait-hint", key.clone(), || format!("refusal with status {status:?} and wait-nanos {hint:?}"));
                        w.check(!log.iter().any(|e| e.0 == x.0), "refused-request-reached-service", key.clone(), || format!("request {} refused but reached the service", x.0));
                    }
                }
            }
        }
        if block && !w.violated() {
            // Waits must follow the limiter's own clock. 2.5 replenishment periods of *simulated*
            // time later (milliseconds of real time) at most burst + 3 requests of a peer may have
            // been admitted whichever clock an implementation waits on (burst + replenishment over
            // the window, rounded up); releasing every waiter after one period would exceed that.
            tokio::time::sleep(period * 5 / 2).await;
            let log = inner.st.lock().unwrap().log.clone();
            for (pi, p) in peers.iter().enumerate() {
                let admitted = log.iter().filter(|e| e.3 == Some(*p)).count() as u64;
                if admitted > burst as u64 + 3 {
                    w.violate("quota-exceeded-after-waiting", key.clone(), format!("peer {pi}: {admitted} of {} requests reached the service within 2.5 replenishment periods (burst {burst}, 1 cell per period): waiting requests were released without being charged to the quota", per_peer[pi]));
                }
            }
            w.probe("block-mode-long-wait");
        }
        for t in tasks {
            t.abort();
        }
        if over {
            w.mark_overlap();
        }
        w.event(format!("{key} peers={n_peers} per_peer={per_peer:?}"));
        w.sample("run", json!({"burst": burst, "block": block, "per_peer_requests": per_peer}));
        w.finish()
    })
}

fn run_c19_net(input: RunInput) -> ScenFuture {
    Box::pin(async move {
        use anemo_tower::rate_limit::{RateLimitLayer, WaitMode as RWait, WAIT_NANOS_HEADER};
        let w = World::new(&input, LinkCfg::clean(200, 4_000));
        let lossy = w.flag("lossy", 0.3);
        let burst = w.param("burst", 1, 4) as u64;
        let block = w.flag("block_mode", 0.5);
        let n_clients = w.param("clients", 2, 3) as usize;
        let n_req = w.param("requests", 1, if w.tier == Tier::Quick { 60 } else { 150 }) as u64;
        let period_ms = [20u64, 50, 100, 250, 500][w.param("period_class", 0, 4) as usize];
        let t_ns = period_ms * 1_000_000;
        let quota = governor::Quota::with_period(Duration::from_millis(period_ms)).unwrap().allow_burst(std::num::NonZeroU32::new(burst as u32).unwrap());
        let inner = GaugeSvc { st: Default::default(), fabric: w.fabric.clone() };
        let layer = RateLimitLayer::new(quota, if block { RWait::Block } else { RWait::ReturnError });
        let cfg = base_config(10_000, Some(2_000));
        let server = w.start_node(w.spec(1, cfg.clone()), StatusToResponse(layer.layer(inner.clone()))).unwrap();
        let mut clients = Vec::new();
        for i in 0..n_clients {
            let c = Arc::new(w.start_node(w.spec(i as u8 + 2, cfg.clone()), Svc::echo(&w)).unwrap());
            // (who dialed a connection is nothing the layer may depend on: about half of the
            // connections are established by the node that serves behind the layer)
            let ok = if w.rng(&format!("cfg:who-dials:{i}")).gen_bool(0.5) {
                w.probe("connection-dialed-by-the-serving-node");
                let ok = server.net.connect_with_peer_id(c.addr, c.peer_id).await.is_ok();
                // (the dialed side registers the connection a moment after the dialer)
                for _ in 0..200 {
                    if c.net.peers().contains(&server.peer_id) {
                        break;
                    }
                    sleep_ms(1).await;
                }
                ok
            } else {
                c.net.connect_with_peer_id(server.addr, server.peer_id).await.is_ok()
            };
            if !ok {
                w.harness_error("setup connect failed");
            }
            clients.push(c);
        }
        let mut link = LinkCfg::clean(200, 4_000);
        if lossy {
            link.drop = w.param("drop_pct", 1, 8) as f64 / 100.0;
        }
        w.fabric.set_default_link(link);
        let mut r = w.rng("wl:c19net");
        let span_ms = w.param("span_periods", 1, 12) as u64 * period_ms;
        let mut tasks = Vec::new();
        // (request id, client) of everything sent; refusals seen by the callers
        let mut sent: BTreeMap<u64, usize> = BTreeMap::new();
        let refused: Arc<Mutex<Vec<(u64, Option<String>, u64, u64)>>> = Default::default();
        let unanswered: Arc<Mutex<Vec<u64>>> = Default::default();
        // in the middle of the run one client dials the server again: the replacement connection
        // must draw on the same quota
        let redial_at = r.gen_bool(0.4).then(|| r.gen_range(0..=span_ms));
        if let Some(at) = redial_at {
            let (c, sa, sid) = (clients[0].clone(), server.addr, server.peer_id);
            tasks.push(tokio::spawn(async move {
                sleep_ms(at).await;
                let _ = c.net.connect_with_peer_id(sa, sid).await;
            }));
            w.probe("client-redials-mid-run");
        }
        for id in 0..n_req {
            let ci = r.gen_range(0..n_clients);
            sent.insert(id, ci);
            let c = clients[ci].clone();
            let at = r.gen_range(0..=span_ms);
            // a peer id carried in the message must not matter: some requests name another client
            let forged = r.gen_bool(0.2).then(|| clients[(ci + 1) % n_clients].peer_id);
            let (sid, w2, refused, unanswered) = (server.peer_id, w.clone(), refused.clone(), unanswered.clone());
            tasks.push(tokio::spawn(async move {
                sleep_ms(at).await;
                let t_send = w2.now_ns();
                let mut req = Request::new(Bytes::new()).with_header("id", id.to_string()).with_header("dur-ms", "1");
                if let Some(f) = forged {
                    req = req.with_header("peer-id", format!("{f:?}")).with_extension(f);
                }
                match rpc_bounded(&c, sid, req, Duration::from_secs(120)).await {
                    Ok(resp) if resp.status() == StatusCode::Success => {
                        if resp.body() != &Bytes::from(id.to_string()) {
                            w2.violate("wrong-response", "net", format!("request {id} got another request's response"));
                        }
                    }
                    Ok(resp) if resp.status() == StatusCode::TooManyRequests => refused.lock().unwrap().push((id, resp.headers().get(WAIT_NANOS_HEADER).cloned(), t_send, w2.now_ns())),
                    Ok(resp) => w2.violate("unexpected-status", "net", format!("request {id}: {:?}", resp.status())),
                    Err(e) => {
                        unanswered.lock().unwrap().push(id);
                        if e == "hang" {
                            w2.violate("request-never-completes", "net", format!("request {id}: {e}"));
                        }
                    }
                }
            }));
        }
        futures::future::join_all(tasks).await;
        let key = format!("burst={burst} period_ms={period_ms} mode={}", if block { "block" } else { "return-error" });
        let log = inner.st.lock().unwrap().log.clone();
        let refused = refused.lock().unwrap().clone();
        let unanswered = unanswered.lock().unwrap().clone();
        let mut extra_cell: Option<String> = None;
        let mut over = false;
        for (ci, c) in clients.iter().enumerate() {
            // every admitted request is attributed to the client that sent it
            for e in log.iter().filter(|e| sent.get(&e.0) == Some(&ci)) {
                if e.3 != Some(c.peer_id) {
                    w.violate("request-attributed-to-wrong-peer", key.clone(), format!("request {} of client {ci} reached the service as {:?}", e.0, e.3.map(|p| w.pname(&p))));
                }
            }
            let mut adm: Vec<u64> = log.iter().filter(|e| e.3 == Some(c.peer_id)).map(|e| e.1).collect();
            adm.sort();
            let mut strict = BucketReplay::new(t_ns, burst, burst);
            let mut extra = BucketReplay::new(t_ns, burst + 1, burst);
            for (k, t) in adm.iter().enumerate() {
                if !extra.admit(*t) {
                    w.violate("quota-exceeded-in-a-window", key.clone(), format!("client {ci}: admission {k} at {} us came when less than one cell was available even in a bucket of burst+1 = {} cells (admissions, us: {:?}); re-dial at {redial_at:?} ms", t / 1000, burst + 1, adm[..=k].iter().rev().take(10).rev().map(|x| x / 1000).collect::<Vec<_>>()));
                    break;
                }
                if !strict.admit(*t) {
                    extra_cell.get_or_insert(format!("client {ci}: admission {k} at {} us exceeds burst {burst} + replenishment (1 cell / {period_ms} ms) by one cell", t / 1000));
                }
            }
            let n_sent = sent.values().filter(|x| **x == ci).count() as u64;
            if n_sent > burst {
                over = true;
            }
        }
        for (id, hint, t_send, t_recv) in &refused {
            // a refusal is justified only if, at some instant between sending the request and
            // receiving the refusal, the sender's own bucket held less than one cell
            let ci = sent[id];
            let mut adm: Vec<u64> = log.iter().filter(|e| e.3 == Some(clients[ci].peer_id)).map(|e| e.1).collect();
            adm.sort();
            let mut b = BucketReplay::new(t_ns, burst, burst);
            let mut min_level = i128::MAX;
            let mut k = 0;
            while k < adm.len() && adm[k] < *t_send {
                b.admit(adm[k]);
                k += 1;
            }
            min_level = min_level.min(b.level_at(*t_send));
            while k < adm.len() && adm[k] <= *t_recv {
                b.admit(adm[k]);
                min_level = min_level.min(b.level_at(adm[k]));
                k += 1;
            }
            w.check(min_level < t_ns as i128, "request-within-quota-refused", key.clone(), || format!("request {id} of client {ci} (sent at {} us, refused by {} us) was refused although the client's own bucket never held less than {:.2} cells in between", t_send / 1000, t_recv / 1000, min_level as f64 / t_ns as f64));
            w.check(!block, "block-mode-refused", key.clone(), || format!("request {id} answered TooManyRequests in Block mode"));
            w.check(!log.iter().any(|e| e.0 == *id), "refused-request-reached-service", key.clone(), || format!("request {id} refused but reached the service"));
            w.check(hint.as_ref().and_then(|h| h.parse::<u64>().ok()).map(|n| n > 0 && n <= 2 * t_ns).unwrap_or(false), "refusal-without-valid-wait-hint", key.clone(), || format!("request {id}: wait-nanos {hint:?}"));
        }
        // (requests in flight over a connection that gets replaced fail with it)
        if !lossy && redial_at.is_none() {
            w.check(unanswered.is_empty(), "request-never-completes", key.clone(), || format!("requests {unanswered:?} failed on a loss-free network"));
            if block {
                let served = log.len() as u64;
                w.check(served == n_req, "waiting-request-never-admitted", key.clone(), || format!("{served} of {n_req} requests reached the service in Block mode"));
            }
        }
        if over {
            w.mark_overlap();
            w.probe("request-over-quota");
        }
        if let Some(msg) = extra_cell {
            w.probe("extra-cell-of-a-full-bucket-used");
            if !w.violated() {
                w.violate("quota-exceeded-by-the-extra-cell-of-a-full-bucket", "bucket-holds-burst+1-cells-once-it-has-been-full", msg);
            }
        }
        w.event(format!("{key} clients={n_clients} refused={} served={}", refused.len(), log.len()));
        w.sample("run", json!({"burst": burst, "period_ms": period_ms, "block": block, "clients": n_clients, "requests": n_req, "refused": refused.len(), "served": log.len(), "redial_at_ms": redial_at}));
        let out = w.finish();
        drop((server, clients));
        out
    })
}

/// Token bucket replay of one peer's *actual* admission instants: capacity `cap_cells` cells,
/// `start_cells` at the first admission, one cell back every `period` (continuously), one cell
/// per admission. Conformance to "burst plus replenishment over every window" is exactly "the
/// level never goes negative" with capacity = burst. Units: ns of replenishment.
struct BucketReplay {
    cap: i128,
    period: i128,
    level: i128,
    last: Option<u64>,
    start: i128,
}

impl BucketReplay {
    fn new(period_ns: u64, cap_cells: u64, start_cells: u64) -> Self {
        Self { cap: cap_cells as i128 * period_ns as i128, period: period_ns as i128, level: 0, last: None, start: start_cells as i128 * period_ns as i128 }
    }
    /// level (in ns of replenishment; one cell = `period`) at `now`, before any admission at `now`
    fn level_at(&self, now: u64) -> i128 {
        match self.last {
            None => self.start,
            Some(l) => (self.level + (now - l) as i128).min(self.cap),
        }
    }
    /// account one admission at `now`; false if there was less than one cell
    fn admit(&mut self, now: u64) -> bool {
        let l = self.level_at(now);
        self.level = l - self.period;
        self.last = Some(now);
        l >= self.period
    }
}

/// Greedy first-come-first-served schedule of a bucket with `burst` cells (the most restrictive
/// reading of the quota): admission instants for the given arrival instants.
fn strict_fifo_schedule(arrivals: &[u64], period_ns: u64, burst: u64) -> Vec<u64> {
    let mut b = BucketReplay::new(period_ns, burst, burst);
    let mut out = Vec::new();
    let mut t_prev = 0u64;
    for a in arrivals {
        let mut t = (*a).max(t_prev);
        let l = b.level_at(t);
        if l < b.period {
            t += (b.period - l) as u64;
        }
        b.admit(t);
        out.push(t);
        t_prev = t;
    }
    out
}

fn run_c19_virtual(input: RunInput) -> ScenFuture {
    Box::pin(async move {
        use anemo_tower::rate_limit::{RateLimitLayer, WaitMode as RWait, WAIT_NANOS_HEADER};
        let w = World::new(&input, LinkCfg::clean(100, 100));
        let burst = w.param("burst", 1, 8) as u64;
        let block = w.flag("block_mode", 0.5);
        let n_peers = w.param("peers", 1, 4) as usize;
        let n_req = w.param("requests", 5, if w.tier == Tier::Quick { 120 } else { 300 }) as u64;
        // (one cell per 2 ms - 2 s; in part of the runs per 200 or 500 us: more than a thousand
        // requests per second, where a wait is a fraction of a millisecond)
        // (ReturnError only: timers fire on millisecond boundaries, so the instants at which
        // *waiting* requests are let through are not comparable at this scale)
        let period_us = if !block && w.flag("sub_millisecond_period", 0.25) { [200u64, 500][w.param("sub_ms_period_class", 0, 1) as usize] } else { 1000 * [2u64, 5, 10, 25, 100, 250, 1000, 2000][w.param("period_class", 0, 7) as usize] };
        let period_ms = (period_us / 1000).max(1);
        let span_periods = w.param("span_periods", 1, 40) as u64;
        let cancel = block && w.flag("cancel_waiters", 0.3);
        let period = Duration::from_micros(period_us);
        let t_ns = period_us * 1_000;
        // start at an odd instant so that nothing depends on the limiter being created at time 0
        sleep_ms(w.param("start_offset_ms", 0, 50) as u64).await;
        let quota = governor::Quota::with_period(period).unwrap().allow_burst(std::num::NonZeroU32::new(burst as u32).unwrap());
        let mode = if block { RWait::Block } else { RWait::ReturnError };
        let inner = GaugeSvc { st: Default::default(), fabric: w.fabric.clone() };
        let layer = RateLimitLayer::new(quota, mode);
        // several services made by one layer share its limiter; clones of a service do too
        let services = [layer.layer(inner.clone()), layer.layer(inner.clone())];
        // the same limiter configuration a second time, seeing only peer 0's requests (at the very
        // same instants): quotas are per peer, so peer 0 must fare identically in both
        let inner_solo = GaugeSvc { st: Default::default(), fabric: w.fabric.clone() };
        let solo = RateLimitLayer::new(quota, mode).layer(inner_solo.clone());
        let peers: Vec<PeerId> = peer_ids(&w, n_peers);
        let mut r = w.rng("wl:c19v");
        // arrivals: clustered bursts and isolated requests over the span
        let span_ms = (span_periods * period_ms).max(1);
        struct Arrival {
            id: u64,
            peer: usize,
            at_ms: u64,
            cancel_after_ms: Option<u64>,
        }
        let mut arrivals: Vec<Arrival> = Vec::new();
        let mut cluster_at = 0u64;
        for id in 0..n_req {
            if id == 0 || r.gen_bool(0.35) {
                cluster_at = r.gen_range(0..=span_ms);
            }
            let at_ms = if r.gen_bool(0.7) { cluster_at + r.gen_range(0..3) } else { r.gen_range(0..=span_ms) };
            let cancel_after_ms = (cancel && r.gen_bool(0.25)).then(|| r.gen_range(0..=3 * period_ms));
            arrivals.push(Arrival { id, peer: r.gen_range(0..n_peers), at_ms, cancel_after_ms });
        }
        type Outcome = Option<Result<(), (StatusCode, Option<String>)>>;
        // (id, peer, arrival ns, outcome, outcome ns, cancelled)
        type Rec = (u64, usize, u64, Outcome, u64, bool);
        let results: Arc<Mutex<Vec<Rec>>> = Default::default();
        let results_solo: Arc<Mutex<Vec<Rec>>> = Default::default();
        let mut tasks = Vec::new();
        for a in &arrivals {
            for is_solo in [false, true] {
                if is_solo && (a.peer != 0 || cancel) {
                    continue;
                }
                let (id, peer, at_ms, cancel_after) = (a.id, a.peer, a.at_ms, a.cancel_after_ms);
                let (pid, w2) = (peers[a.peer], w.clone());
                let results = if is_solo { results_solo.clone() } else { results.clone() };
                let idx = {
                    let mut g = results.lock().unwrap();
                    g.push((id, peer, 0, None, 0, false));
                    g.len() - 1
                };
                let mut req = Request::new(Bytes::new()).with_extension(pid).with_header("id", id.to_string()).with_header("dur-ms", "1");
                // (a deadline the caller states is the timeout layers' business, not this layer's)
                if id % 5 == 2 {
                    req = req.with_header("timeout", (200_000 * (1 + id % 7)).to_string());
                }
                let call = if is_solo { solo.clone().oneshot(req) } else { services[(a.id % 2) as usize].clone().oneshot(req) };
                tasks.push(tokio::spawn(async move {
                    sleep_ms(at_ms).await;
                    results.lock().unwrap()[idx].2 = w2.now_ns();
                    let res = match cancel_after {
                        Some(ms) => tokio::time::timeout(Duration::from_millis(ms), call).await.ok(),
                        None => Some(call.await),
                    };
                    let mut g = results.lock().unwrap();
                    g[idx].4 = w2.now_ns();
                    match res {
                        Some(r) => g[idx].3 = Some(r.map(|_| ()).map_err(|s| (s.status(), s.headers().get(WAIT_NANOS_HEADER).cloned()))),
                        None => g[idx].5 = true,
                    }
                }));
            }
        }
        // everything that can be admitted has been after: span + (requests of one peer + 2) periods
        sleep_ms(span_ms + 3 + (n_req + 5) * period_ms + 20).await;
        let key = format!("burst={burst} period_ms={period_ms} mode={}", if block { "block" } else { "return-error" });
        let results = results.lock().unwrap().clone();
        let log = inner.st.lock().unwrap().log.clone();
        let mut over = false;
        let mut sig = Vec::new();
        // (the known finding is reported last, so that it cannot mask anything else in the run)
        let mut extra_cell: Option<String> = None;
        for (pi, p) in peers.iter().enumerate() {
            let mut adm: Vec<u64> = log.iter().filter(|e| e.3 == Some(*p)).map(|e| e.1).collect();
            adm.sort();
            // (1) "never more than burst plus the replenishment over the window", every window:
            // replay of the actual admissions against a bucket of `burst` cells
            let mut strict = BucketReplay::new(t_ns, burst, burst);
            let mut extra = BucketReplay::new(t_ns, burst + 1, burst);
            let mut first_strict: Option<(usize, u64)> = None;
            let mut first_extra: Option<(usize, u64)> = None;
            for (k, t) in adm.iter().enumerate() {
                if !strict.admit(*t) && first_strict.is_none() {
                    first_strict = Some((k, *t));
                }
                if !extra.admit(*t) && first_extra.is_none() {
                    first_extra = Some((k, *t));
                }
            }
            if let Some((k, t)) = first_extra {
                w.violate("quota-exceeded-in-a-window", key.clone(), format!("peer {pi}: admission {k} at {} us came when less than one cell was available even in a bucket of burst+1 = {} cells (admissions so far, us: {:?})", t / 1000, burst + 1, adm[..=k].iter().rev().take(12).rev().map(|x| x / 1000).collect::<Vec<_>>()));
            } else if let Some((k, t)) = first_strict {
                // the pinned governor 0.6.3 lets a bucket that has been full keep one cell more
                // than the burst (known finding F-D)
                extra_cell.get_or_insert(format!("peer {pi}: admission {k} at {} us exceeds burst {burst} + replenishment (1 cell / {period_ms} ms) over the window since the bucket was last full by one cell (last admissions, us: {:?})", t / 1000, adm[..=k].iter().rev().take(12).rev().map(|x| x / 1000).collect::<Vec<_>>()));
            }
            let mut mine: Vec<&Rec> = results.iter().filter(|x| x.1 == pi).collect();
            mine.sort_by_key(|x| (x.2, x.0));
            if mine.len() as u64 > burst {
                over = true;
            }
            if block {
                let refused = mine.iter().filter(|x| matches!(&x.3, Some(Err(_)))).count();
                w.check(refused == 0, "block-mode-refused", key.clone(), || format!("{refused} requests refused in Block mode"));
                let any_cancelled = mine.iter().any(|x| x.5);
                // a request that was not cancelled is admitted in the end
                for x in &mine {
                    if !x.5 && x.3.is_none() {
                        w.violate("waiting-request-never-admitted", key.clone(), format!("peer {pi}: request {} arrived at {} us and is still waiting {} periods after the last arrival", x.0, x.2 / 1000, n_req + 5));
                    }
                }
                if !any_cancelled {
                    // (2) nobody waits longer than the quota requires: the k-th admission comes no
                    // later than in the first-come-first-served schedule of the most restrictive
                    // reading of the quota, plus one period (an implementation may account cells
                    // on a grid) and 3 ms of timer granularity - whatever other peers are doing
                    let arr: Vec<u64> = mine.iter().map(|x| x.2).collect();
                    let ideal = strict_fifo_schedule(&arr, t_ns, burst);
                    for (k, want) in ideal.iter().enumerate() {
                        match adm.get(k) {
                            Some(got) if *got > *want + t_ns + 3_000_000 => {
                                w.violate("over-quota-request-delayed-beyond-its-quota", key.clone(), format!("peer {pi}: admission {k} at {} us although the peer's own quota permits it at {} us ({} requests of {n_peers} peers in the run)", got / 1000, want / 1000, results.len()));
                                break;
                            }
                            None => {
                                w.violate("waiting-request-never-admitted", key.clone(), format!("peer {pi}: {} admissions, {} requests", adm.len(), ideal.len()));
                                break;
                            }
                            _ => {}
                        }
                    }
                } else {
                    w.probe("block-run-with-cancelled-waiters");
                }
            } else {
                // (3) every refusal is justified (given what was admitted so far there was less
                // than one cell even under the most restrictive reading), immediate, carries a
                // positive hint that is not longer than two periods, and never reaches the service
                let mut strict = BucketReplay::new(t_ns, burst, burst);
                let mut ai = 0usize;
                for x in &mine {
                    match &x.3 {
                        None => w.violate("request-never-completes", key.clone(), format!("request {} pending in ReturnError mode", x.0)),
                        Some(Ok(())) => {}
                        Some(Err((status, h))) => {
                            // account the admissions up to this instant (those of the same instant
                            // included: admissions first, then refusals)
                            while ai < adm.len() && adm[ai] <= x.2 {
                                strict.admit(adm[ai]);
                                ai += 1;
                            }
                            let level = strict.level_at(x.2);
                            w.check(level < t_ns as i128, "request-within-quota-refused", key.clone(), || format!("peer {pi}: request {} refused at {} us although {} cells were available (burst {burst}, admissions so far {ai})", x.0, x.2 / 1000, level as f64 / t_ns as f64));
                            let n = h.as_ref().and_then(|h| h.parse::<u64>().ok());
                            w.check(*status == StatusCode::TooManyRequests && n.map(|n| n > 0 && n <= 2 * t_ns).unwrap_or(false), "refusal-without-valid-wait-hint", key.clone(), || format!("refusal with status {status:?} and wait-nanos {h:?} (one cell per {t_ns} ns)"));
                            w.check(!log.iter().any(|e| e.0 == x.0), "refused-request-reached-service", key.clone(), || format!("request {} refused but reached the service", x.0));
                            w.check(x.4 == x.2, "refusal-not-immediate", key.clone(), || format!("request {} was refused {} us after it arrived", x.0, (x.4 - x.2) / 1000));
                        }
                    }
                }
            }
            sig.push(format!("{}:{}", mine.len(), adm.len()));
        }
        // (4) per-peer quotas: peer 0 fares exactly as it does alone
        if !cancel && !w.violated() {
            let log_solo = inner_solo.st.lock().unwrap().log.clone();
            let mut a: Vec<u64> = log.iter().filter(|e| e.3 == Some(peers[0])).map(|e| e.1).collect();
            let mut b: Vec<u64> = log_solo.iter().map(|e| e.1).collect();
            a.sort();
            b.sort();
            if a != b {
                let k = a.iter().zip(b.iter()).position(|(x, y)| x != y).unwrap_or(a.len().min(b.len()));
                w.violate("quota-depends-on-other-peers", key.clone(), format!("peer 0 sent the same requests at the same instants to two limiters with the same quota; next to {} other peers it got {} admissions, alone {}; first difference at admission {k}: {:?} us vs {:?} us", n_peers - 1, a.len(), b.len(), a.get(k).map(|x| x / 1000), b.get(k).map(|x| x / 1000)));
            }
            w.probe("per-peer-independence-compared");
        }
        // (4b) the wrapped service stops being ready (back-pressure) while requests of a peer are
        // waiting inside the limiter for their turn: they were let in when it was ready, each is
        // handed to it when its cell is due - one per period - and not all at once when the
        // service is ready again
        if block && !cancel && !w.violated() && w.flag("wrapped_service_not_ready_for_a_while", 0.25) {
            #[derive(Clone)]
            struct Gated<S> {
                inner: S,
                open: Arc<std::sync::atomic::AtomicBool>,
                wakers: Arc<Mutex<Vec<std::task::Waker>>>,
            }
            impl<S: Service<Request<Bytes>>> Service<Request<Bytes>> for Gated<S> {
                type Response = S::Response;
                type Error = S::Error;
                type Future = S::Future;
                fn poll_ready(&mut self, cx: &mut Context<'_>) -> Poll<Result<(), S::Error>> {
                    if !self.open.load(std::sync::atomic::Ordering::SeqCst) {
                        self.wakers.lock().unwrap().push(cx.waker().clone());
                        return Poll::Pending;
                    }
                    self.inner.poll_ready(cx)
                }
                fn call(&mut self, req: Request<Bytes>) -> Self::Future {
                    self.inner.call(req)
                }
            }
            let open = Arc::new(std::sync::atomic::AtomicBool::new(true));
            let wakers: Arc<Mutex<Vec<std::task::Waker>>> = Default::default();
            let gated = layer.layer(Gated { inner: inner.clone(), open: open.clone(), wakers: wakers.clone() });
            let fresh = PeerId([0xE1; 32]);
            let n_g = 4u64;
            let t0 = w.now_ns();
            let mut hs = Vec::new();
            for k in 0..n_g {
                let req = Request::new(Bytes::new()).with_extension(fresh).with_header("id", (6_000_000 + k).to_string()).with_header("instant", "1");
                hs.push(tokio::spawn(gated.clone().oneshot(req)));
            }
            tokio::time::sleep(Duration::from_nanos(t_ns / 4)).await;
            open.store(false, std::sync::atomic::Ordering::SeqCst);
            tokio::time::sleep(Duration::from_nanos(3 * t_ns + t_ns / 4)).await;
            open.store(true, std::sync::atomic::Ordering::SeqCst);
            for wk in wakers.lock().unwrap().drain(..) {
                wk.wake();
            }
            for h in hs {
                let _ = tokio::time::timeout(Duration::from_nanos(4 * t_ns + 50_000_000), h).await;
            }
            let mut entries: Vec<u64> = inner.st.lock().unwrap().log.iter().filter(|e| e.0 >= 6_000_000 && e.0 < 6_000_000 + n_g).map(|e| e.1).collect();
            entries.sort();
            // (burst cells at once, then one per period; governor's bucket of burst+1 is the known finding)
            let mut b = BucketReplay::new(t_ns, burst + 1, burst + 1);
            for (k, t) in entries.iter().enumerate() {
                if !b.admit(*t) {
                    w.violate("quota-exceeded-in-a-window", format!("{key} service-not-ready"), format!("peer E1: request {k} of {n_g} entered the wrapped service at {} us after the first; the service had stopped being ready from {} to {} us while the requests were waiting for their cells (entries, us after the first: {:?})", (t - entries[0]) / 1000, t_ns / 4000, (3 * t_ns + t_ns / 2) / 1000, entries.iter().map(|x| (x - entries[0]) / 1000).collect::<Vec<_>>()));
                    break;
                }
            }
            if entries.len() as u64 != n_g {
                w.violate("waiting-request-never-admitted", format!("{key} service-not-ready"), format!("only {} of {n_g} requests reached the wrapped service", entries.len()));
            }
            let _ = t0;
            w.probe("wrapped-service-not-ready-phase");
        }
        // (5) a crowd: thousands of peers the limiter has never seen send one request each within
        // one period. Quotas are per peer however many peers there are: every one of these first
        // requests is within its sender's quota and is admitted at once, in either mode
        if !w.violated() && w.flag("crowd_of_peers", 0.08) {
            let n_crowd = w.param("crowd", 4_100, 9_000) as u32;
            let mut svc = services[0].clone();
            let mut bad: Option<(u32, String)> = None;
            let t0 = w.now_ns();
            for k in 0..n_crowd {
                let mut id = [0xC7u8; 32];
                id[..4].copy_from_slice(&k.to_be_bytes());
                let req = Request::new(Bytes::new()).with_extension(PeerId(id)).with_header("id", (5_000_000 + k as u64).to_string()).with_header("instant", "1");
                match tokio::time::timeout(Duration::from_nanos(t_ns / 4), svc.ready().await.unwrap().call(req)).await {
                    Ok(Ok(_)) => {}
                    Ok(Err(s)) => { bad = Some((k, format!("refused with {:?}", s.status()))); break; }
                    Err(_) => { bad = Some((k, "made to wait".into())); break; }
                }
            }
            if let Some((k, what)) = bad {
                w.violate("quota-depends-on-other-peers", format!("{key} crowd"), format!("the first request of previously unseen peer number {k} (of a crowd of {n_crowd} peers sending one request each within {} us) was {what}", (w.now_ns() - t0) / 1000));
            }
            w.probe("crowd-phase");
        }
        for t in tasks {
            t.abort();
        }
        if over {
            w.mark_overlap();
            w.probe("request-over-quota");
        }
        if let Some(msg) = extra_cell {
            w.probe("extra-cell-of-a-full-bucket-used");
            if !w.violated() {
                w.violate("quota-exceeded-by-the-extra-cell-of-a-full-bucket", "bucket-holds-burst+1-cells-once-it-has-been-full", msg);
            }
        }
        w.event(format!("{key} peers={n_peers} adm={sig:?} cancel={cancel}"));
        w.sample("run", json!({"burst": burst, "period_ms": period_ms, "block": block, "requests": n_req, "span_periods": span_periods, "cancel_waiters": cancel, "per_peer(requests:admitted)": sig}));
        w.finish()
    })
}

// ---------------------------------------------------------------------------------------------
// C20
// ---------------------------------------------------------------------------------------------

fn run_c20_direct(input: RunInput) -> ScenFuture {
    Box::pin(async move {
        let w = World::new(&input, LinkCfg::clean(100, 100));
        let n_req = w.param("requests", 1, if w.tier == Tier::Quick { 100 } else { 250 }) as u64;
        let closure_auth = w.flag("closure_authorizer", 0.4);
        let mut r = w.rng("wl:c20");
        // identities: ordinary ones plus the unusual (all-zero, all-ones, single-bit neighbours)
        let mut universe: Vec<PeerId> = (0..20).map(|i| PeerId([i as u8 + 1; 32])).collect();
        universe.push(PeerId([0; 32]));
        universe.push(PeerId([0xFF; 32]));
        for i in 0..4 {
            let mut a = [i as u8 + 1; 32];
            a[31] ^= 1;
            universe.push(PeerId(a));
            let mut b = [i as u8 + 1; 32];
            b[0] ^= 0x80;
            universe.push(PeerId(b));
        }
        // allow-lists of every size from empty to 20 (ordinary ids; the specials mostly stay unlisted)
        let n_allowed = r.gen_range(0..=20usize);
        let mut allowed: BTreeSet<PeerId> = BTreeSet::new();
        while allowed.len() < n_allowed {
            let c = universe[r.gen_range(0..universe.len())];
            if c.0 != [0; 32] && c.0 != [0xFF; 32] || r.gen_bool(0.1) {
                allowed.insert(c);
            }
        }
        // a very long allow-list (tens of thousands of entries): listed is listed, wherever in the
        // list - in whatever order or index structure the layer keeps - an identity comes to lie
        let huge = !closure_auth && w.flag("allow_list_of_70000_peers", 0.03);
        if huge {
            for k in 0..70_000u32 {
                let mut id = [0u8; 32];
                id[0] = (k % 251) as u8 + 3;
                id[1..5].copy_from_slice(&k.to_be_bytes());
                allowed.insert(PeerId(id));
            }
            // senders from all over the list, the ids that sort last among them
            for k in [0u32, 1, 250, 30_000, 65_535, 65_536, 69_000, 69_998, 69_999] {
                let mut id = [0u8; 32];
                id[0] = (k % 251) as u8 + 3;
                id[1..5].copy_from_slice(&k.to_be_bytes());
                universe.push(PeerId(id));
            }
            universe.push(*allowed.iter().next_back().unwrap());
            universe.push(*allowed.iter().next().unwrap());
            w.probe("huge-allow-list");
        }
        // two authorization layers stacked (a service-wide list and a stricter one inside, as with a
        // router's route_layer): a request is served only if both accept its sender
        let stacked = !closure_auth && w.flag("stacked_allow_lists", 0.3);
        let inner_allowed: BTreeSet<PeerId> = allowed.iter().copied().filter(|_| !stacked || r.gen_bool(0.6)).collect();
        // the middleware built through its layer or directly with the service's own constructor
        let direct_ctor = w.flag("built_with_the_service_constructor", 0.4);
        let log: Arc<Mutex<Vec<u64>>> = Default::default();
        let log2 = log.clone();
        // the wrapped service counts as invoked the moment `call` is entered (a service may do its
        // work there - spawn it, queue it - rather than in the future it returns)
        let inner = tower::service_fn(move |req: Request<Bytes>| {
            let log = log2.clone();
            let id: u64 = req.headers().get("id").and_then(|v| v.parse().ok()).unwrap_or(u64::MAX);
            log.lock().unwrap().push(id);
            async move {
                let d: u64 = req.headers().get("dur-ms").and_then(|v| v.parse().ok()).unwrap_or(0);
                tokio::time::sleep(Duration::from_millis(d)).await;
                Ok::<_, Infallible>(Response::new(Bytes::from(format!("served-{id}"))))
            }
        });
        // expected verdict per request id
        #[derive(Clone)]
        struct Want {
            accept: bool,
            status: StatusCode,
            body: String,
        }
        let mut wants: BTreeMap<u64, Want> = BTreeMap::new();
        let mut reqs = Vec::new();
        for id in 0..n_req {
            let sender = match r.gen_range(0..10) {
                0 | 1 => None,
                2 => Some(universe[20 + r.gen_range(0..universe.len() - 20)]), // an unusual identity
                _ => Some(universe[r.gen_range(0..universe.len())]),
            };
            let mut req = Request::new(Bytes::new()).with_header("id", id.to_string()).with_header("dur-ms", r.gen_range(0..20).to_string());
            if let Some(s) = sender {
                req = req.with_extension(s);
            }
            // whatever else a request carries (here: the direction marker anemo attaches) has no
            // say in the allow-list's verdict
            match r.gen_range(0..4) {
                0 => req = req.with_extension(anemo::Direction::Inbound),
                1 => req = req.with_extension(anemo::Direction::Outbound),
                _ => {}
            }
            let want = if closure_auth {
                // closure authorizer: decision and refusal response are carried by headers
                let accept = r.gen_bool(0.5);
                let status = [StatusCode::BadRequest, StatusCode::NotFound, StatusCode::TooManyRequests, StatusCode::Unknown][r.gen_range(0..4)];
                let body = format!("refused-{id}-{}", r.gen_range(0..1000));
                req = req.with_header("decision", if accept { "y" } else { "n" }).with_header("refuse-status", status.to_u16().to_string()).with_header("refuse-body", body.clone());
                Want { accept, status: if accept { StatusCode::Success } else { status }, body: if accept { format!("served-{id}") } else { body } }
            } else {
                match sender {
                    None => Want { accept: false, status: StatusCode::InternalServerError, body: String::new() },
                    Some(s) if allowed.contains(&s) && inner_allowed.contains(&s) => Want { accept: true, status: StatusCode::Success, body: format!("served-{id}") },
                    Some(_) => Want { accept: false, status: StatusCode::NotFound, body: String::new() },
                }
            };
            wants.insert(id, want);
            reqs.push((id, req, r.gen_range(0..30u64)));
        }
        let closure = |req: &mut Request<Bytes>| -> Result<(), Response<Bytes>> {
            if req.headers().get("decision").map(|d| d == "y").unwrap_or(false) {
                Ok(())
            } else {
                let status = StatusCode::new(req.headers().get("refuse-status").and_then(|s| s.parse().ok()).unwrap_or(400)).unwrap();
                Err(Response::new(Bytes::from(req.headers().get("refuse-body").cloned().unwrap_or_default())).with_status(status).with_header("refused-by", "authorizer"))
            }
        };
        let results: Arc<Mutex<BTreeMap<u64, (StatusCode, String, bool)>>> = Default::default();
        let mut tasks = Vec::new();
        // the wrapped service cares about readiness (tower's ConcurrencyLimit, with room to spare):
        // every clone has to be polled ready itself before it is called, whatever the instance it
        // was cloned from had been told - in part of the runs that instance is polled ready first
        let inner = tower::limit::ConcurrencyLimit::new(inner, 10_000);
        let ready_before_clone = w.flag("original_polled_ready_before_it_is_cloned", 0.4);
        macro_rules! drive {
            ($svc:expr) => {
                let mut original = $svc;
                if ready_before_clone {
                    let _ = futures::future::poll_fn(|cx| original.poll_ready(cx)).await;
                }
                for (id, req, at) in reqs {
                    let (svc, results) = (original.clone(), results.clone());
                    tasks.push(tokio::spawn(async move {
                        sleep_ms(at).await;
                        let resp = svc.oneshot(req).await.unwrap();
                        results.lock().unwrap().insert(id, (resp.status(), String::from_utf8_lossy(resp.body()).to_string(), resp.headers().contains_key("refused-by")));
                    }));
                }
            };
        }
        use anemo_tower::auth::RequireAuthorization;
        match (closure_auth, direct_ctor, stacked) {
            (true, false, _) => {
                let svc = RequireAuthorizationLayer::new(closure).layer(inner);
                drive!(svc);
            }
            (true, true, _) => {
                let svc = RequireAuthorization::new(inner, closure);
                drive!(svc);
            }
            (false, false, false) => {
                let svc = RequireAuthorizationLayer::new(AllowedPeers::new(allowed.iter().copied())).layer(inner);
                drive!(svc);
            }
            (false, true, false) => {
                let svc = RequireAuthorization::new(inner, AllowedPeers::new(allowed.iter().copied()));
                drive!(svc);
            }
            (false, false, true) => {
                let svc = RequireAuthorizationLayer::new(AllowedPeers::new(allowed.iter().copied())).layer(RequireAuthorizationLayer::new(AllowedPeers::new(inner_allowed.iter().copied())).layer(inner));
                drive!(svc);
            }
            (false, true, true) => {
                let svc = RequireAuthorization::new(RequireAuthorization::new(inner, AllowedPeers::new(inner_allowed.iter().copied())), AllowedPeers::new(allowed.iter().copied()));
                drive!(svc);
            }
        }
        if stacked {
            w.probe("stacked-allow-lists");
        }
        futures::future::join_all(tasks).await;
        let served: Vec<u64> = log.lock().unwrap().clone();
        let served_set: BTreeSet<u64> = served.iter().copied().collect();
        let key = if closure_auth { "closure" } else { "allow-list" };
        w.check(served.len() == served_set.len(), "request-served-twice", key, || "a request reached the service twice".into());
        w.check(served_set.iter().all(|id| wants.contains_key(id)), "service-invoked-with-a-request-nobody-sent", key, || "the wrapped service was invoked with a request that no caller issued".into());
        let results = results.lock().unwrap().clone();
        let (mut acc, mut rej) = (0, 0);
        for (id, want) in &wants {
            let got = results.get(id);
            if want.accept {
                acc += 1;
            } else {
                rej += 1;
            }
            if want.accept != served_set.contains(id) {
                w.violate(if want.accept { "accepted-request-not-served" } else { "refused-request-reached-service" }, key, format!("request {id}: authorizer accepts = {}, reached the service = {}", want.accept, served_set.contains(id)));
            }
            match got {
                None => w.violate("request-never-completes", key, format!("request {id}")),
                Some((st, body, by)) => {
                    if *st != want.status || *body != want.body || (closure_auth && !want.accept && !by) {
                        w.violate("response-is-not-the-authorizers", key, format!("request {id}: got ({st:?}, {body:?}), expected ({:?}, {:?})", want.status, want.body));
                    }
                }
            }
        }
        if acc > 0 && rej > 0 {
            w.mark_overlap();
        }
        w.event(format!("{key} acc={acc} rej={rej}"));
        w.sample("run", json!({"authorizer": key, "requests": n_req, "accepted": acc, "refused": rej, "allow_list_size": allowed.len()}));
        w.finish()
    })
}

fn run_c20_net(input: RunInput) -> ScenFuture {
    Box::pin(async move {
        let w = World::new(&input, LinkCfg::clean(200, 4_000));
        let lossy = w.flag("lossy", 0.3);
        let n_clients = w.param("clients", 3, 5) as usize;
        let n_req = w.param("requests", 1, if w.tier == Tier::Quick { 40 } else { 100 }) as u64;
        let cfg = base_config(10_000, Some(2_000));
        let mut r = w.rng("wl:c20net");
        // identities are fixed by the seed before the server is built
        let keys: Vec<[u8; 32]> = (0..n_clients).map(|i| w.key_for(i as u8 + 2)).collect();
        let ids: Vec<PeerId> = keys.iter().map(public_key).collect();
        let allowed: BTreeSet<PeerId> = ids.iter().copied().filter(|_| r.gen_bool(0.5)).collect();
        let svc = Svc::echo(&w);
        let h = svc.handle();
        let layered = RequireAuthorizationLayer::new(AllowedPeers::new(allowed.iter().copied())).layer(svc);
        let server = w.start_node(w.spec(1, cfg.clone()), layered).unwrap();
        let mut clients = Vec::new();
        for i in 0..n_clients {
            let c = Arc::new(w.start_node(w.spec(i as u8 + 2, cfg.clone()), Svc::echo(&w)).unwrap());
            // (who dialed a connection is nothing the layer may depend on: about half of the
            // connections are established by the node that serves behind the layer)
            let ok = if w.rng(&format!("cfg:who-dials:{i}")).gen_bool(0.5) {
                w.probe("connection-dialed-by-the-serving-node");
                let ok = server.net.connect_with_peer_id(c.addr, c.peer_id).await.is_ok();
                // (the dialed side registers the connection a moment after the dialer)
                for _ in 0..200 {
                    if c.net.peers().contains(&server.peer_id) {
                        break;
                    }
                    sleep_ms(1).await;
                }
                ok
            } else {
                c.net.connect_with_peer_id(server.addr, server.peer_id).await.is_ok()
            };
            if !ok {
                w.harness_error("setup connect failed");
            }
            clients.push(c);
        }
        let mut link = LinkCfg::clean(200, 4_000);
        if lossy {
            link.drop = w.param("drop_pct", 1, 8) as f64 / 100.0;
            link.dup = 0.03;
        }
        w.fabric.set_default_link(link);
        let mut tasks = Vec::new();
        let (mut acc, mut rej) = (0, 0);
        for id in 0..n_req {
            let ci = r.gen_range(0..n_clients);
            let listed = allowed.contains(&ids[ci]);
            if listed {
                acc += 1
            } else {
                rej += 1
            }
            let (c, sid, w2, at) = (clients[ci].clone(), server.peer_id, w.clone(), r.gen_range(0..100u64));
            // a request that *claims* to come from a listed peer in its header changes nothing
            let claim = allowed.iter().next().map(|p| format!("{p}")).unwrap_or_default();
            tasks.push(tokio::spawn(async move {
                sleep_ms(at).await;
                let body = Bytes::from(format!("req-{id}"));
                let req = Request::new(body.clone()).with_header("x-nonce", id.to_string()).with_header("peer-id", claim);
                match rpc_bounded(&c, sid, req, Duration::from_secs(120)).await {
                    Ok(resp) => {
                        let ok = if listed { resp.status() == StatusCode::Success && resp.body() == &body } else { resp.status() == StatusCode::NotFound && resp.body().is_empty() };
                        if !ok {
                            w2.violate(if listed { "listed-sender-refused" } else { "unlisted-sender-not-refused-with-notfound" }, "net", format!("request {id} from a {} sender got {:?} / {} body bytes", if listed { "listed" } else { "unlisted" }, resp.status(), resp.body().len()));
                        }
                    }
                    Err(e) => {
                        if !lossy || e == "hang" {
                            w2.violate("request-never-completes", "net", format!("request {id}: {e}"));
                        }
                    }
                }
            }));
        }
        futures::future::join_all(tasks).await;
        for s in h.seen() {
            match s.peer {
                Some(p) if allowed.contains(&p) => {}
                other => w.violate("refused-request-reached-service", "net", format!("the wrapped service saw a request from {:?}, which is not in the allow-list", other.map(|p| w.pname(&p)))),
            }
        }
        if acc > 0 && rej > 0 {
            w.mark_overlap();
        }
        w.event(format!("acc={acc} rej={rej} allowed={}", allowed.len()));
        w.sample("run", json!({"clients": n_clients, "allowed": allowed.len(), "requests": n_req, "from_listed": acc, "from_unlisted": rej}));
        let out = w.finish();
        drop((server, clients));
        out
    })
}
