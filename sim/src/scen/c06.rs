//! C06 — a connected hostile peer cannot crash or stall the network.

use super::common::*;
use crate::adversary::*;
use crate::fabric::LinkCfg;
use crate::model::wire;
use crate::runner::{ScenFuture, Scenario};
use crate::world::*;
use anemo::{Request, Response};
use bytes::Bytes;
use rand::Rng;
use serde_json::json;
use std::sync::atomic::{AtomicBool, AtomicU64, Ordering};
use std::sync::Arc;
use std::time::Duration;

pub static HOSTILE: Scenario = Scenario {
    id: "C06",
    name: "c06-hostile-peer",
    run,
    quick_runs: 10_000,
    thorough_runs: 200_000,
    rule: "one run = a real Network H serving a Router, an honest prober P calling it continuously, and an admitted raw QUIC peer running a PRNG script of 5-60 hostile operations (random bytes, valid request truncated at a PRNG offset then finished/reset/abandoned, huge length prefixes in either frame, bincode headers announcing 2^64-byte strings/maps, bit flips, odd routes, stop() on the response, uni streams, datagrams, more streams than the limit, trailing garbage, abrupt close) interleaved with its own well-formed RPCs; distinct = distinct order signature (script operation kinds and outcomes); non-trivial = every run (the script always overlaps honest traffic)",
    real: super::REAL_NET,
    stubbed: super::STUB_NET,
};

fn good_request(route: &str, body: &[u8]) -> Vec<u8> {
    wire::encode_request(1, route, &[], body)
}

async fn read_all(rx: &mut quinn::RecvStream, ms: u64) -> Result<Vec<u8>, String> {
    match tokio::time::timeout(Duration::from_millis(ms), rx.read_to_end(1 << 22)).await {
        Ok(Ok(v)) => Ok(v),
        Ok(Err(e)) => Err(format!("{e}")),
        Err(_) => Err("timeout".into()),
    }
}

async fn open_bi(c: &quinn::Connection) -> Result<(quinn::SendStream, quinn::RecvStream), ()> {
    match tokio::time::timeout(Duration::from_millis(300), c.open_bi()).await {
        Ok(Ok(s)) => Ok(s),
        _ => Err(()),
    }
}

fn run(input: RunInput) -> ScenFuture {
    Box::pin(async move {
        let w = World::new(&input, LinkCfg::clean(200, 3_000));
        let lossy = w.flag("lossy", 0.25);
        let lat_max = w.param("lat_max_us", 300, 20_000) as u64;
        let n_ops = w.param("ops", 1, if w.tier == Tier::Quick { 60 } else { 150 }) as usize;
        let max_bidi = w.param("h_max_bidi_streams", 4, 100) as u64;
        let frame_limit = w.flag("h_frame_limit", 0.3).then(|| w.param("h_max_frame", 64, 100_000) as usize);
        let mut cfg = base_config(10_000, Some(2_000));
        cfg.quic.as_mut().unwrap().max_concurrent_bidi_streams = Some(max_bidi);
        cfg.max_frame_size = frame_limit;
        // (also shorter than the time a slowly written request takes to arrive)
        cfg.inbound_request_timeout_ms = w.flag("h_inbound_timeout", 0.5).then(|| [20u64, 100, 300, 2_000][w.param("h_inbound_timeout_class", 0, 3) as usize]);
        // H may also *dial* a hostile party on its own: a High-affinity entry of its known-peer
        // table points at a listener that completes the handshake and then says nothing (never
        // sends its version frame), so every background dial of it ends in the connect timeout
        let silent_listener = w.flag("h_background_dials_a_silent_listener", 0.3);
        if silent_listener {
            cfg.connectivity_check_interval_ms = Some(w.param("h_connectivity_check_interval_ms", 150, 1_000) as u64);
            cfg.connect_timeout_ms = Some(w.param("h_connect_timeout_ms", 200, 900) as u64);
            cfg.connection_backoff_ms = Some(100);
            cfg.max_connection_backoff_ms = Some(300);
        }
        let echo = Svc::echo(&w);
        let slow = Svc::new(&w, Arc::new(|req: &Request<Bytes>| Plan { delay: Duration::from_millis(300), response: Response::new(req.body().clone()), hold: Duration::ZERO }));
        let router = anemo::Router::new()
            .route("/echo", echo.clone())
            .route("/slow", slow)
            .route("/svc/*rest", echo.clone())
            // (route names that share a prefix: what the route table says about "/peer/" is none of
            // a hostile peer's business either)
            .route("/peer/info", echo.clone())
            .route("/peers", echo.clone())
            .route("/a/b/c", echo.clone())
            .route("/ax", echo.clone())
            .route("/p/:id", echo);
        // in some runs the application's service exerts backpressure (tower's ConcurrencyLimit with
        // 3-8 slots; the slowest legitimate request takes 300 ms, so even a full house of them
        // delays an honest caller by seconds, not for ever): capacity is for requests, and a
        // stream that never delivers a request must not hold any
        let h = if w.flag("h_service_backpressure", 0.3) {
            w.start_node(w.spec(1, cfg.clone()), tower::limit::ConcurrencyLimit::new(router, w.param("h_service_slots", 3, 8) as usize)).unwrap()
        } else {
            w.start_node(w.spec(1, cfg.clone()), router).unwrap()
        };
        let mut pcfg = base_config(10_000, Some(2_000));
        pcfg.max_frame_size = None;
        let p = Arc::new(w.start_node(w.spec(2, pcfg.clone()), Svc::echo(&w)).unwrap());
        if p.net.connect_with_peer_id(h.addr, h.peer_id).await.is_err() {
            w.harness_error("prober could not connect");
        }
        let adv_key = w.key_for(9);
        let adv = adv_endpoint(&w, AdvSpec {
            idx: 9, port: 7000, chain: vec![gen_cert(&adv_key, "sim")], sign_key: adv_key, present_client_cert: true,
            idle_ms: 10_000, keep_alive_ms: Some(2_000), max_bidi: 100,
        });
        let c = match adv.dial(h.addr, "sim", 5_000).await {
            Ok(c) => c,
            Err(e) => {
                w.harness_error(format!("hostile peer was not admitted with its own identity: {e}"));
                return w.finish();
            }
        };
        let q_key = w.key_for(8);
        let silent = adv_endpoint(&w, AdvSpec {
            idx: 8, port: 7000, chain: vec![gen_cert(&q_key, "sim")], sign_key: q_key, present_client_cert: true,
            idle_ms: 10_000, keep_alive_ms: Some(2_000), max_bidi: 100,
        });
        if silent_listener {
            let ep = silent.ep.clone();
            tokio::spawn(async move {
                let mut keep = Vec::new();
                while let Some(inc) = ep.accept().await {
                    if let Ok(c) = inc.await {
                        keep.push(c);
                    }
                }
            });
            h.net.known_peers().insert(anemo::types::PeerInfo { peer_id: public_key(&q_key), affinity: anemo::types::PeerAffinity::High, address: vec![silent.addr.into()] });
            w.probe("background-dials-of-a-silent-listener");
        }
        // "Another thread" of H's application asks for a peer to be disconnected right at the points
        // at which H's connection manager (or anybody) is about to take the active-peer lock and, by
        // the hook's contract (H7), holds none of it: what a writer arriving on another worker thread
        // does on a real machine. Somebody still holding a read guard there - a lock taken
        // recursively - would have the writer wait on him and himself wait behind the writer
        // (std's RwLock prefers writers): here the simulation thread deadlocks on itself and the
        // watchdog reports the hang.
        let writer_at_lock_points = w.flag("h_a_writer_arrives_at_lock_points", 0.3);
        if writer_at_lock_points {
            let net = h.net.clone();
            let mut pr = w.rng("wl:lock-point-writer");
            let w2 = w.clone();
            anemo::verif::set_sched_hook(Some(Box::new(move |tag| {
                if tag == "active-peers" && pr.gen_bool(0.03) {
                    let _ = net.disconnect(anemo::PeerId([0xDD; 32]));
                    w2.probe("writer-arrived-at-a-lock-point");
                }
            })));
        }
        // whatever H's known-peer table says about the two (High or Allowed, with or without an
        // address) changes nothing about what a connected peer can do to it
        w.vary_known_peers(&h, &[(public_key(&adv_key), Some(adv.addr)), (p.peer_id, Some(p.addr))], true);
        let mut link = LinkCfg::clean(200, lat_max);
        if lossy {
            link.drop = w.param("drop_pct", 1, 6) as f64 / 100.0;
            link.dup = 0.02;
        }
        w.fabric.set_default_link(link);

        // honest prober
        let stop = Arc::new(AtomicBool::new(false));
        let probe_ok = Arc::new(AtomicU64::new(0));
        let prober = {
            let (w2, p2, stop, probe_ok, hid) = (w.clone(), p.clone(), stop.clone(), probe_ok.clone(), h.peer_id);
            tokio::spawn(async move {
                let mut i = 0u64;
                let mut r = w2.rng("wl:prober");
                while !stop.load(Ordering::SeqCst) {
                    i += 1;
                    let max_pad = frame_limit.map(|l| l.saturating_sub(24)).unwrap_or(2000).min(2000);
                    let body = Bytes::from(format!("probe-{i}-{}", "z".repeat(r.gen_range(0..=max_pad))));
                    let req = Request::new(body.clone()).with_route(if i % 5 == 0 { "/svc/x/y" } else { "/echo" });
                    match rpc_bounded(&p2, hid, req, Duration::from_secs(30)).await {
                        Ok(resp) if resp.body() == &body && resp.status() == anemo::types::response::StatusCode::Success => {
                            probe_ok.fetch_add(1, Ordering::SeqCst);
                        }
                        Ok(resp) => w2.violate("honest-rpc-wrong-response", "prober", format!("probe {i}: status {:?}, body len {}", resp.status(), resp.body().len())),
                        Err(e) => {
                            if !lossy || e == "hang" {
                                w2.violate("honest-rpc-failed", "prober", format!("probe {i} failed while a hostile peer was connected: {e}"));
                            }
                        }
                    }
                    sleep_us(if i < 1500 { r.gen_range(0..20_000) } else { r.gen_range(200_000..2_000_000) }).await;
                }
            })
        };

        // hostile script
        let mut r = w.rng("adv:script");
        let mut kinds = Vec::new();
        let mut adv_ok = 0u64;
        let mut closed = false;
        let mut held = Vec::new();
        let mut held_uni = Vec::new();
        // close reasons are attacker-chosen bytes too: empty, short, long, multi-byte characters at
        // every alignment, not UTF-8 at all
        let odd_reason = |r: &mut rand::rngs::StdRng| -> Vec<u8> {
            match r.gen_range(0..5) {
                0 => Vec::new(),
                1 => b"bye".to_vec(),
                2 => vec![b'x'; r.gen_range(1..900)],
                3 => {
                    const A: &[&str] = &["a", "é", "λ", "中", "🦀", " ", "\u{0}"];
                    let mut s = String::new();
                    for _ in 0..r.gen_range(1..200) {
                        s.push_str(A[r.gen_range(0..A.len())]);
                    }
                    s.into_bytes()
                }
                _ => {
                    let mut b = vec![0u8; r.gen_range(1..400)];
                    r.fill(&mut b[..]);
                    b
                }
            }
        };
        for _ in 0..n_ops {
            let kind = r.gen_range(0..19);
            kinds.push(kind);
            let good = good_request(["/echo", "/svc/a", "/p/7"][r.gen_range(0..3)], b"hello-hostile");
            let mut outcome = "-";
            if held.len() + 2 >= max_bidi as usize {
                held.clear();
            }
            match kind {
                0 => {
                    if let Ok((mut tx, _rx)) = open_bi(&c).await {
                        let mut b = vec![0u8; r.gen_range(0..300)];
                        r.fill(&mut b[..]);
                        let _ = tx.write_all(&b).await;
                        let _ = tx.finish();
                    }
                }
                1 | 11 => {
                    // valid request truncated at an offset, then finished / reset / abandoned / recv stopped
                    if let Ok((mut tx, mut rx)) = open_bi(&c).await {
                        let k = r.gen_range(0..good.len());
                        let _ = tx.write_all(&good[..k]).await;
                        match r.gen_range(0..4) {
                            0 => { let _ = tx.finish(); }
                            1 => { let _ = tx.reset(7u32.into()); }
                            2 => { let _ = rx.stop(9u32.into()); }
                            _ => { held.push((tx, rx)); }
                        }
                    }
                }
                2 | 13 => {
                    // huge length prefix in the header frame (2) or in the body frame (13)
                    if let Ok((mut tx, _rx)) = open_bi(&c).await {
                        let mut b = wire::preamble(1).to_vec();
                        if kind == 13 {
                            wire::frame(&mut b, &wire::request_header("/echo", &[]));
                        }
                        let n: u32 = [0xFFFF_FFFF, 0x8000_0000, 0x0080_0001, 0x7FFF_FFFF, 70_000][r.gen_range(0..5)];
                        b.extend_from_slice(&n.to_be_bytes());
                        b.extend_from_slice(&[1, 2, 3]);
                        let _ = tx.write_all(&b).await;
                        if r.gen_bool(0.5) { let _ = tx.finish(); } else { held.push((tx, _rx)); }
                    }
                }
                3 => {
                    if let Ok((mut tx, mut rx)) = open_bi(&c).await {
                        let mut b = good.clone();
                        let i = r.gen_range(0..b.len());
                        b[i] ^= 1 << r.gen_range(0..8);
                        let _ = tx.write_all(&b).await;
                        let _ = tx.finish();
                        let _ = read_all(&mut rx, 3000).await;
                    }
                }
                4 => {
                    if let Ok((mut tx, mut rx)) = open_bi(&c).await {
                        let _ = tx.write_all(&good_request("/slow", b"x")).await;
                        let _ = tx.finish();
                        sleep_us(r.gen_range(0..400_000)).await;
                        let _ = rx.stop(3u32.into());
                    }
                }
                5 => {
                    if let Ok(Ok(mut tx)) = tokio::time::timeout(Duration::from_secs(5), c.open_uni()).await {
                        // anything from nothing to a few bytes (the start of anemo's own 8-byte
                        // frame, or noise) to kilobytes; finished, reset, or simply left open
                        let n = if r.gen_bool(0.5) { r.gen_range(0..12) } else { r.gen_range(0..2000) };
                        let mut b = vec![0u8; n];
                        r.fill(&mut b[..]);
                        if r.gen_bool(0.4) {
                            let p = wire::preamble(1);
                            let k = n.min(p.len());
                            b[..k].copy_from_slice(&p[..k]);
                        }
                        let _ = tx.write_all(&b).await;
                        match r.gen_range(0..3) {
                            0 => { let _ = tx.finish(); }
                            1 => { let _ = tx.reset(1u32.into()); }
                            _ => held_uni.push(tx),
                        }
                    }
                }
                6 => {
                    let mut b = vec![0u8; r.gen_range(0..1000)];
                    r.fill(&mut b[..]);
                    let _ = c.send_datagram(Bytes::from(b));
                }
                7 | 14 => {
                    // a well-formed RPC of the hostile peer must be answered correctly
                    match tokio::time::timeout(Duration::from_secs(20), c.open_bi()).await {
                        Ok(Ok((mut tx, mut rx))) => {
                            let body = format!("wf-{}", r.gen_range(0..1_000_000));
                            let _ = tx.write_all(&good_request("/echo", body.as_bytes())).await;
                            let _ = tx.finish();
                            match read_all(&mut rx, 20_000).await {
                                Ok(bytes) => match wire::decode_response(&bytes) {
                                    Ok(d) if d.status == Some(200) && d.body == body.as_bytes() => { adv_ok += 1; outcome = "ok"; }
                                    other => w.violate("well-formed-rpc-of-hostile-peer-wrong-answer", "adv", format!("{other:?}")),
                                },
                                Err(e) => {
                                    if !lossy || e == "timeout" {
                                        w.violate("well-formed-rpc-of-hostile-peer-unanswered", "adv", format!("after ops {kinds:?}: {e}"));
                                    }
                                }
                            }
                        }
                        _ => {
                            // stream credit: every stream this peer opened must eventually be released
                            // by H (it resets/stops streams it cannot parse); held streams are ours.
                            if held.len() < max_bidi as usize {
                                w.violate("hostile-peer-stream-credit-not-returned", "adv", format!("open_bi blocked for 20 s with only {} streams held by the peer itself (limit {max_bidi}); ops {kinds:?}", held.len()));
                            }
                        }
                    }
                }
                8 => {
                    // bincode header announcing an enormous string / map
                    if let Ok((mut tx, mut rx)) = open_bi(&c).await {
                        let mut b = wire::preamble(1).to_vec();
                        let mut hdr = Vec::new();
                        match r.gen_range(0..3) {
                            0 => { hdr.extend_from_slice(&u64::MAX.to_le_bytes()); hdr.extend_from_slice(b"xx"); }
                            1 => { hdr.extend_from_slice(&1u64.to_le_bytes()); hdr.push(b'/'); hdr.extend_from_slice(&u64::MAX.to_le_bytes()); }
                            _ => { hdr.extend_from_slice(&1u64.to_le_bytes()); hdr.push(b'/'); hdr.extend_from_slice(&1u64.to_le_bytes()); hdr.extend_from_slice(&(1u64 << 62).to_le_bytes()); hdr.extend_from_slice(b"k"); }
                        }
                        wire::frame(&mut b, &hdr);
                        wire::frame(&mut b, b"");
                        let _ = tx.write_all(&b).await;
                        let _ = tx.finish();
                        let _ = read_all(&mut rx, 3000).await;
                    }
                }
                9 => {
                    let routes = ["", "//", "/*", "/:x", "no-slash", "/a/../b", "/\u{0}", "/%", "/{", "/*rest", "/svc/", "/svc", "/p/", "/p/a/b", "/echo/", "/ECHO", "/peer/", "/peer", "/peers/", "/peer/info/", "/a/", "/a/b/", "/a", "/ax/"];
                    let route = match r.gen_range(0..10) {
                        0 | 1 => "/".repeat(r.gen_range(1..70_000)),
                        // long routes with multi-byte characters at every alignment
                        2..=4 => {
                            const A: &[&str] = &["a", "/", "é", "λ", "中", "🦀", "\u{0}", "%", "é"];
                            let mut s = if r.gen_bool(0.7) { "/".to_string() } else { String::new() };
                            for _ in 0..r.gen_range(1..300) {
                                s.push_str(A[r.gen_range(0..A.len())]);
                            }
                            s
                        }
                        _ => routes[r.gen_range(0..routes.len())].to_string(),
                    };
                    if let Ok((mut tx, mut rx)) = open_bi(&c).await {
                        let _ = tx.write_all(&good_request(&route, b"x")).await;
                        let _ = tx.finish();
                        match read_all(&mut rx, 20_000).await {
                            Ok(bytes) => {
                                let too_big = frame_limit.map(|l| route.len() + 16 > l).unwrap_or(false);
                                match wire::decode_response(&bytes) {
                                    Ok(_) => outcome = "answered",
                                    Err(e) => {
                                        if !too_big && !lossy {
                                            w.violate("odd-route-got-no-valid-response", "adv", format!("route {:?} (len {}): {e}, {} bytes", route.chars().take(20).collect::<String>(), route.len(), bytes.len()));
                                        }
                                    }
                                }
                            }
                            Err(_) => {}
                        }
                    }
                }
                15 | 16 => {
                    // a well-formed request carrying a hostile / odd `timeout` header; must be answered
                    // (normally or with RequestTimeout), never hurt the network
                    let t = ["0", "1", "999", "1000000", "18446744073709551615", "18446744073709551616", "abc", "-1", " 5 ", ""][r.gen_range(0..10)];
                    if let Ok((mut tx, mut rx)) = open_bi(&c).await {
                        let hdrs = vec![("timeout".to_string(), t.to_string())];
                        let bytes = wire::encode_request(1, if kind == 15 { "/echo" } else { "/slow" }, &hdrs, b"t");
                        if kind == 16 {
                            // ... sent slowly: a pause inside the request
                            let cut = r.gen_range(1..bytes.len());
                            let _ = tx.write_all(&bytes[..cut]).await;
                            sleep_us(r.gen_range(1_000..400_000)).await;
                            let _ = tx.write_all(&bytes[cut..]).await;
                        } else {
                            let _ = tx.write_all(&bytes).await;
                        }
                        let _ = tx.finish();
                        match read_all(&mut rx, 20_000).await {
                            Ok(b) => match wire::decode_response(&b) {
                                Ok(d) if d.status == Some(200) || d.status == Some(408) => outcome = "answered",
                                other => {
                                    if !lossy {
                                        w.violate("request-with-odd-timeout-header-not-answered", format!("timeout={t:?}"), format!("{other:?}"));
                                    }
                                }
                            },
                            Err(e) => {
                                if !lossy {
                                    w.violate("request-with-odd-timeout-header-not-answered", format!("timeout={t:?}"), e);
                                }
                            }
                        }
                    }
                }
                17 => {
                    // a well-formed request with a large, odd header map
                    if let Ok((mut tx, mut rx)) = open_bi(&c).await {
                        let hdrs: Vec<(String, String)> = (0..r.gen_range(0..40)).map(|i| (format!("{}{i}", ["", "timeout", "content-type", "status-message", "\u{0}"][r.gen_range(0..5)]), "v".repeat(r.gen_range(0..300)))).collect();
                        let _ = tx.write_all(&wire::encode_request(1, "/echo", &hdrs, b"h")).await;
                        let _ = tx.finish();
                        let _ = read_all(&mut rx, 5_000).await;
                    }
                }
                18 => {
                    // datagrams with the close right behind them
                    if r.gen_bool(0.3) {
                        // (H stalled for a moment - a busy host - so that everything sent now is
                        // handed to it in one batch when it resumes)
                        if r.gen_bool(0.7) {
                            w.fabric.stall(h.addr, w.now_ns() + r.gen_range(1_000_000..40_000_000));
                        }
                        for _ in 0..r.gen_range(1..5) {
                            let mut b = vec![0u8; r.gen_range(0..600)];
                            r.fill(&mut b[..]);
                            let _ = c.send_datagram(Bytes::from(b));
                        }
                        // let the datagrams leave before the close discards what is still queued
                        for _ in 0..r.gen_range(0..4) {
                            tokio::task::yield_now().await;
                        }
                        c.close(r.gen_range(0..1000u32).into(), &odd_reason(&mut r));
                        closed = true;
                        w.event("op18:datagrams-then-close".to_string());
                        break;
                    }
                }
                10 => {
                    // more streams than the limit, all held open
                    for _ in 0..(max_bidi + 5) {
                        match tokio::time::timeout(Duration::from_millis(50), c.open_bi()).await {
                            Ok(Ok(s)) => held.push(s),
                            _ => break,
                        }
                    }
                    held.clear();
                }
                _ => {
                    // valid request followed by trailing garbage
                    if let Ok((mut tx, mut rx)) = open_bi(&c).await {
                        let mut b = good.clone();
                        b.extend_from_slice(&vec![0xEE; r.gen_range(1..3000)]);
                        let _ = tx.write_all(&b).await;
                        let _ = tx.finish();
                        let _ = read_all(&mut rx, 3000).await;
                    }
                }
            }
            w.event(format!("op{kind}:{outcome}"));
            if r.gen_bool(0.5) {
                sleep_us(r.gen_range(0..30_000)).await;
            }
            if c.close_reason().is_some() {
                w.violate("hostile-peer-was-disconnected-by-parse-error", "adv", format!("H closed the connection after ops {kinds:?}: {:?}", c.close_reason()));
                break;
            }
            if r.gen_bool(0.02) {
                c.close(r.gen_range(0..1000u32).into(), &odd_reason(&mut r));
                closed = true;
                break;
            }
        }
        held.clear();
        held_uni.clear();
        match r.gen_range(0..3) {
            0 if !closed => c.close(r.gen_range(0..1000u32).into(), &odd_reason(&mut r)),
            1 => drop(c),
            _ => {}
        }
        sleep_ms(500).await;
        stop.store(true, Ordering::SeqCst);
        if tokio::time::timeout(Duration::from_secs(60), prober).await.is_err() {
            w.violate("honest-rpc-failed", "prober", "prober stuck for 60 s");
        }
        w.fabric.set_faults_enabled(false);
        w.check(!h.net.is_closed(), "network-shut-down-by-hostile-peer", "H", || "H.is_closed() after the hostile script".into());
        // H still accepts a new honest connection and serves it
        let q = w.start_node(w.spec(3, pcfg), Svc::echo(&w)).unwrap();
        match tokio::time::timeout(Duration::from_secs(15), q.net.connect_with_peer_id(h.addr, h.peer_id)).await {
            Ok(Ok(_)) => {
                let r = rpc_bounded(&q, h.peer_id, Request::new(Bytes::from_static(b"q")).with_route("/echo"), Duration::from_secs(10)).await;
                w.check(r.is_ok(), "new-honest-connection-not-served", "Q", || format!("{r:?}"));
            }
            other => w.violate("new-honest-connection-refused", "Q", format!("{:?}", other.map(|r| r.map_err(|e| e.to_string())))),
        }
        w.mark_overlap();
        w.probe_n("probes-ok", probe_ok.load(Ordering::SeqCst));
        w.probe_n("hostile-wellformed-ok", adv_ok);
        w.sample("script", json!({"ops": kinds, "lossy": lossy, "h_max_bidi": max_bidi, "h_frame_limit": frame_limit}));
        anemo::verif::set_sched_hook(None);
        let out = w.finish();
        drop((h, p, q, adv, silent));
        out
    })
}
