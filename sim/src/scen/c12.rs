//! C12 — abandoned RPCs are cancelled remotely and leak nothing.

use super::c02::body_for;
use super::common::*;
use crate::fabric::LinkCfg;
use crate::runner::{ScenFuture, Scenario};
use crate::world::*;
use anemo::{Request, Response};
use bytes::Bytes;
use rand::Rng;
use serde_json::json;
use std::sync::{Arc, Mutex};
use std::time::Duration;

pub static ABANDON: Scenario = Scenario {
    id: "C12",
    name: "c12-abandon",
    run,
    quick_runs: 9000,
    thorough_runs: 200_000,
    rule: "one run = client and server Networks, stream limit 2-8, a history of 10-200 calls (well beyond the limit) each abandoned at a PRNG instant (before the stream opens, mid request write, while the handler runs, mid response transfer, never) by dropping the future or by the outbound timeout, interleaved with sibling calls that are not abandoned; strict (no loss) and relaxed (loss) configurations; distinct = distinct order signature over (call started, abandoned, handler started/dropped/completed, call finished); non-trivial = at least one call was abandoned while a handler was running or a fault fired",
    real: super::REAL_NET,
    stubbed: super::STUB_NET,
};

#[derive(Clone, Debug)]
struct Call {
    nonce: u64,
    abandon_after_us: Option<u64>,
    via_timeout_header: bool,
    req_len: usize,
    resp_len: usize,
    handler_ms: u64,
    start_ms: u64,
    /// the handler is CPU-bound for this long from its start (it can be neither polled nor
    /// dropped meanwhile)
    hold_ms: u64,
    /// the handler is busy on an always-ready resource for this long (it yields only when tokio's
    /// cooperative budget makes it, `busy_on_a_hot_resource`); handler_ms is 0 then
    busy_ms: u64,
}

#[derive(Clone, Debug, Default)]
struct CallResult {
    abandoned_at_ns: Option<u64>,
    finished_ok: bool,
    error: Option<String>,
    wrong: Option<String>,
}

fn run(input: RunInput) -> ScenFuture {
    Box::pin(async move {
        let w = World::new(&input, LinkCfg::clean(200, 5_000));
        let lossy = w.flag("lossy", 0.3);
        let lat_max = w.param("lat_max_us", 300, 30_000) as u64;
        let idle_ms = w.param("idle_ms", 4000, 9000) as u64;
        let ka_ms = w.param("keepalive_ms", 500, idle_ms as i64 / 3) as u64;
        let max_bidi = w.param("max_bidi_streams", 1, 8) as u64;
        let n_calls = w.param("calls", 1, if w.tier == Tier::Quick { 120 } else { 400 }) as u64;
        let spread_ms = w.param("spread_ms", 0, 3000) as u64;
        let pct_abandon = w.param("abandon_pct", 30, 100) as u32;
        // bulk transfers make the sender congestion-limited, which legitimately delays the
        // STOP_SENDING/RESET_STREAM signal by up to a probe timeout: the exact latency bound is
        // only asserted in runs without bulk data (and without loss)
        let bulk = w.flag("bulk", 0.4);
        let mut cfg = base_config(idle_ms, Some(ka_ms));
        cfg.quic.as_mut().unwrap().max_concurrent_bidi_streams = Some(max_bidi);
        let seed = w.seed;
        let plan: PlanFn = Arc::new(move |req: &Request<Bytes>| {
            let g = |k: &str| req.headers().get(k).and_then(|v| v.parse::<u64>().ok()).unwrap_or(0);
            let nonce = g("x-nonce");
            Plan {
                delay: Duration::from_millis(g("x-delay-ms")),
                response: Response::new(body_for(seed, nonce, g("x-resp-len") as usize, 0xBB)).with_header("x-echo-nonce", nonce.to_string()),
                hold: Duration::from_millis(g("x-hold-ms")),
            }
        });
        let svc = Svc::new(&w, plan);
        let h = svc.handle();
        // half of the servers dispatch through anemo's typed-RPC path (rpc::server::Rpc::unary), the
        // way generated servers do
        let typed = w.flag("typed_server_path", 0.5);
        // a service that exerts backpressure through poll_ready (tower's ConcurrencyLimit): a
        // request abandoned while it waits for the service to become ready is dropped there and
        // never reaches the handler
        let backpressure = w.flag("server_backpressure", 0.3).then(|| w.param("service_concurrency", 1, 4) as usize);
        let n_calls = if backpressure.is_some() { n_calls.min(40) } else { n_calls };
        let server = match (typed, backpressure) {
            (true, None) => w.start_node(w.spec(2, cfg.clone()), TypedSvc(svc)),
            (false, None) => w.start_node(w.spec(2, cfg.clone()), svc),
            (true, Some(k)) => w.start_node(w.spec(2, cfg.clone()), tower::limit::ConcurrencyLimit::new(TypedSvc(svc), k)),
            (false, Some(k)) => w.start_node(w.spec(2, cfg.clone()), tower::limit::ConcurrencyLimit::new(svc, k)),
        }
        .unwrap();
        let client = Arc::new(w.start_node(w.spec(1, cfg.clone()), Svc::echo(&w)).unwrap());
        watch_events(&w, &client);
        if client.net.connect_with_peer_id(server.addr, server.peer_id).await.is_err() {
            w.harness_error("setup connect failed");
        }
        sleep_ms(80).await;
        // exact-latency oracle only on a constant-latency link: per-datagram jitter reorders
        // packets, which QUIC loss detection treats as loss and answers by shrinking the
        // congestion window - that legitimately delays the cancellation signal
        let strict_timing = !lossy && !bulk && w.flag("constant_latency", 0.6);
        let mut link = if strict_timing { LinkCfg::constant(lat_max) } else { LinkCfg::clean(200, lat_max) };
        if lossy {
            link.drop = w.param("drop_pct", 1, 8) as f64 / 100.0;
            link.dup = w.param("dup_pct", 0, 5) as f64 / 100.0;
        }
        w.fabric.set_default_link(link);

        // in some runs a part of the handlers is CPU-bound for a while after starting
        let cpu_bound = w.flag("cpu_bound_handlers", 0.3);
        let mut r_cpu = w.rng("wl:cpu-bound");
        // in some runs a few handlers are busy on a resource that is always ready: they get out of
        // the way (and notice the cancellation) only because tokio's cooperative budget makes
        // them yield. The process is then one busy thread, so an abandonment is stamped with its
        // nominal instant (when the caller's deadline fell), not with the instant the caller's
        // task got to run
        let busy = !lossy && !bulk && w.flag("handlers_busy_on_a_hot_resource", 0.12);
        let n_calls = if busy { n_calls.min(24) } else { n_calls };
        let mut r_busy = w.rng("wl:busy");
        let mut n_busy = 0;
        // plan the calls
        let mut r = w.rng("wl:calls");
        let mut calls = Vec::new();
        for nonce in 0..n_calls {
            let abandon = r.gen_range(0..100) < pct_abandon;
            let big_req = bulk && r.gen_bool(0.2);
            let big_resp = bulk && r.gen_bool(0.2);
            let handler_ms = match r.gen_range(0..4) {
                0 => 0,
                1 => r.gen_range(1..50),
                2 => r.gen_range(50..1000),
                _ => r.gen_range(1000..60_000),
            };
            let handler_ms = if backpressure.is_some() { handler_ms.min(5_000) } else { handler_ms };
            let abandon_after_us = abandon.then(|| match r.gen_range(0..6) {
                0 => 0,
                1 => r.gen_range(1..2000),
                2 => r.gen_range(1000..(2 * lat_max + 2000)),
                3 => r.gen_range(0..(handler_ms * 1000 + 1)),
                4 => handler_ms * 1000 + r.gen_range(0..(4 * lat_max + 1000)),
                _ => r.gen_range(0..200_000),
            });
            let busy_ms = if busy && n_busy < 3 && r_busy.gen_bool(0.3) { n_busy += 1; r_busy.gen_range(100..500) } else { 0 };
            let (handler_ms, abandon_after_us, abandon) = if busy_ms > 0 {
                // abandoned while the handler is busy (after the request has had time to arrive)
                (0, Some(r_busy.gen_range((4 * lat_max + 2000)..(busy_ms * 1000 / 2).max(4 * lat_max + 2001))), true)
            } else {
                (handler_ms, abandon_after_us, abandon)
            };
            calls.push(Call {
                nonce,
                abandon_after_us,
                via_timeout_header: r.gen_bool(0.4),
                req_len: if big_req { r.gen_range(50_000..400_000) } else { r.gen_range(0..2000) },
                resp_len: if big_resp { r.gen_range(50_000..400_000) } else { r.gen_range(0..2000) },
                handler_ms: if abandon { handler_ms } else { handler_ms.min(800) },
                start_ms: if spread_ms == 0 { 0 } else { r.gen_range(0..=spread_ms) },
                hold_ms: if busy_ms == 0 && cpu_bound && r_cpu.gen_bool(0.3) { r_cpu.gen_range(5..2_000) } else { 0 },
                busy_ms,
            });
        }
        let results: Arc<Mutex<Vec<CallResult>>> = Arc::new(Mutex::new(vec![CallResult::default(); n_calls as usize]));
        let mut tasks = Vec::new();
        for c in calls.clone() {
            let (w2, client, results, server_id) = (w.clone(), client.clone(), results.clone(), server.peer_id);
            tasks.push(tokio::spawn(async move {
                sleep_ms(c.start_ms).await;
                let mut req = Request::new(body_for(w2.seed, c.nonce, c.req_len, 0xAA))
                    .with_header("x-nonce", c.nonce.to_string())
                    .with_header("x-delay-ms", c.handler_ms.to_string())
                    .with_header("x-hold-ms", c.hold_ms.to_string())
                    .with_header("x-busy-ms", c.busy_ms.to_string())
                    .with_header("x-resp-len", c.resp_len.to_string());
                w2.event(format!("s{}", c.nonce));
                let t_call = w2.now_ns();
                let res = match c.abandon_after_us {
                    Some(us) if c.via_timeout_header => {
                        // abandonment by the outbound timeout layer (timeout header)
                        req.set_timeout(Duration::from_micros(us));
                        Some(client.net.rpc(server_id, req).await)
                    }
                    Some(us) => tokio::time::timeout(Duration::from_micros(us), client.net.rpc(server_id, req)).await.ok(),
                    None => Some(client.net.rpc(server_id, req).await),
                };
                let now = match c.abandon_after_us {
                    Some(us) if busy => (t_call + us * 1000).min(w2.now_ns()),
                    _ => w2.now_ns(),
                };
                let mut out = CallResult::default();
                match res {
                    None => {
                        out.abandoned_at_ns = Some(now);
                        w2.event(format!("a{}", c.nonce));
                    }
                    Some(Err(e)) => {
                        if c.abandon_after_us.is_some() && c.via_timeout_header {
                            out.abandoned_at_ns = Some(now);
                            w2.event(format!("a{}", c.nonce));
                        } else {
                            w2.event(format!("e{}", c.nonce));
                        }
                        out.error = Some(format!("{e:#}"));
                    }
                    Some(Ok(resp)) => {
                        out.finished_ok = true;
                        w2.event(format!("f{}", c.nonce));
                        let expect = body_for(w2.seed, c.nonce, c.resp_len, 0xBB);
                        if resp.body() != &expect || resp.headers().get("x-echo-nonce") != Some(&c.nonce.to_string()) {
                            out.wrong = Some(format!("call {} got a response that is not its own (len {} vs {})", c.nonce, resp.body().len(), expect.len()));
                        }
                    }
                }
                results.lock().unwrap()[c.nonce as usize] = out;
            }));
        }
        w.mark_overlap();
        let window = Duration::from_millis(spread_ms + 2 * (idle_ms + ka_ms) + 70_000);
        // (liveness proxy, not a latency promise: under per-datagram jitter of tens of milliseconds
        // QUIC's loss detection keeps the congestion window at its minimum of two packets per
        // round trip, which all calls share; thorough-tier seed 9859117452081907415: 372 calls with
        // bulk data over one stream at a time on a 24 ms link)
        let total_bytes: u64 = calls.iter().map(|c| (c.req_len + c.resp_len + 2_000) as u64).sum();
        let allowance = Duration::from_millis(total_bytes / 2_400 * (2 * lat_max / 1000 + 1));
        if tokio::time::timeout(window * 4 + allowance, futures::future::join_all(tasks)).await.is_err() {
            w.violate("call-hang", "workload", "calls still pending long after every handler's natural completion");
        }
        w.fabric.set_faults_enabled(false);
        // quiescence: every reset/stop has arrived
        sleep_ms(if lossy { idle_ms + ka_ms + 1000 } else { 10 * lat_max / 1000 + 100 }).await;
        if cpu_bound {
            // ... and every CPU-bound stretch is over
            sleep_ms(2_100).await;
        }
        let connected = client.net.peer(server.peer_id).is_some();
        let results = results.lock().unwrap().clone();
        let seen = h.seen();
        let q_ns = 1_000_000u64;
        // strict: one-way latency for the STOP_SENDING/RESET_STREAM frame, plus what the transport
        // may legitimately hold it back: the frame is congestion-controlled like any other, so
        // with many calls in flight it can wait for a round trip of acknowledgements to open the
        // congestion window and then for the pacer (up to 0.8 RTT); four round trips in total
        // is still two orders of magnitude below the idle timeout
        let bound_ns = if !strict_timing { (idle_ms + ka_ms) * 1_000_000 } else { 8 * lat_max * 1000 + 10 * q_ns };
        // a busy handler yields every 128 items and the timer driver gets a turn every `event
        // interval` (at most 61) task polls: with up to 3 busy handlers that is at most
        // 61 * 128 * BUSY_STEP = 16 ms of CPU between two turns of the driver
        let bound_ns = if busy { bound_ns + 40 * q_ns } else { bound_ns };
        let mut running_abandons = 0u64;
        for c in &calls {
            let res = &results[c.nonce as usize];
            if let Some(wrong) = &res.wrong {
                w.violate("sibling-got-wrong-response", "call", wrong.clone());
            }
            let hs: Vec<&Seen> = seen.iter().filter(|s| s.nonce == Some(c.nonce)).collect();
            if hs.len() > 1 {
                w.violate("request-delivered-twice", "handler", format!("call {} reached a handler {} times", c.nonce, hs.len()));
            }
            match (res.abandoned_at_ns, hs.first()) {
                (Some(t_a), Some(s)) => {
                    if s.at_ns > t_a + bound_ns {
                        w.violate("handler-started-after-abandonment", "abandon", format!("call {}: abandoned at {} ms, yet its handler was started at {} ms (bound {} ms)", c.nonce, t_a / q_ns, s.at_ns / q_ns, bound_ns / q_ns));
                    }
                    // (a handler that is CPU-bound cannot be dropped before it yields)
                    let hold_end = s.at_ns + c.hold_ms * 1_000_000;
                    let known_at = t_a.max(s.at_ns).max(hold_end);
                    let natural_end = s.at_ns + c.handler_ms.max(c.hold_ms).max(c.busy_ms) * 1_000_000;
                    if c.busy_ms > 0 && t_a < natural_end {
                        w.probe("abandoned-while-handler-busy-on-a-hot-resource");
                    }
                    if c.hold_ms > 0 && t_a < hold_end {
                        w.probe("abandoned-while-handler-cpu-bound");
                    }
                    if natural_end > known_at + bound_ns {
                        running_abandons += 1;
                        match (s.dropped_at_ns, s.completed_at_ns) {
                            (Some(d), _) => {
                                if d > known_at + bound_ns {
                                    w.violate("handler-dropped-late", "abandon", format!("call {}: abandoned at {} ms, handler started {} ms, dropped only at {} ms (bound {} ms)", c.nonce, t_a / q_ns, s.at_ns / q_ns, d / q_ns, bound_ns / q_ns));
                                }
                            }
                            (None, Some(done)) => {
                                if connected || !lossy {
                                    w.violate("abandoned-handler-ran-to-completion", "abandon", format!("call {}: abandoned at {} ms but its handler (started {} ms, needs {} ms) ran to completion at {} ms", c.nonce, t_a / q_ns, s.at_ns / q_ns, c.handler_ms.max(c.busy_ms), done / q_ns));
                                }
                            }
                            (None, None) => {
                                w.violate("abandoned-handler-still-running", "abandon", format!("call {}: abandoned at {} ms, handler started {} ms and is still running at quiescence ({} ms)", c.nonce, t_a / q_ns, s.at_ns / q_ns, w.now_ms()));
                            }
                        }
                    }
                }
                (None, _) => {
                    if !lossy && !res.finished_ok {
                        w.violate("sibling-failed", "call", format!("call {} was not abandoned but failed without faults: {:?}", c.nonce, res.error));
                    }
                }
                _ => {}
            }
        }
        if strict_timing { w.probe("strict-timing-run"); }
        if running_abandons > 0 { w.probe_n("abandoned-while-handler-running", running_abandons); } else if !lossy { /* trivial run */ }
        let infl = h.inflight();
        if connected || !lossy {
            w.check(infl == 0, "server-inflight-leak", "quiescence", || format!("{infl} handlers still in flight at quiescence"));
            // stream credit must not leak: max_bidi fresh calls at once all succeed
            let fresh = (0..max_bidi).map(|i| {
                let body = Bytes::from(format!("fresh{i}"));
                let req = Request::new(body).with_header("x-nonce", (1_000_000 + i).to_string()).with_header("x-resp-len", "5");
                rpc_bounded(&client, server.peer_id, req, Duration::from_secs(20))
            });
            let rs = futures::future::join_all(fresh).await;
            for (i, r) in rs.iter().enumerate() {
                if let Err(e) = r {
                    w.violate("fresh-rpc-blocked", "after-abandons", format!("fresh call {i} of {max_bidi} after {n_calls} calls failed: {e}"));
                    break;
                }
            }
            // "any number of abandoned RPCs ... well beyond the concurrent-stream limit": with every
            // stream the server grants held by slow calls, a few hundred further calls are issued
            // and abandoned while they are still waiting for a stream; afterwards the connection
            // serves as before
            if !lossy && !w.violated() && w.flag("mass_abandonment_while_waiting_for_a_stream", 0.2) {
                let seen_before = h.seen().len();
                let holders: Vec<_> = (0..max_bidi).map(|i| {
                    let req = Request::new(Bytes::from(format!("hold{i}"))).with_header("x-nonce", (2_000_000 + i).to_string()).with_header("x-delay-ms", "1500").with_header("x-resp-len", "3");
                    let c = client.clone();
                    let sid = server.peer_id;
                    tokio::spawn(async move { rpc_bounded(&c, sid, req, Duration::from_secs(20)).await.is_ok() })
                }).collect();
                let t0 = w.now_ns();
                while (h.seen().len() - seen_before) < max_bidi as usize && w.now_ns() - t0 < 1_000_000_000 {
                    sleep_ms(1).await;
                }
                let n_mass = w.param("mass_abandoned_calls", 100, 400) as u64;
                let mut mass = Vec::new();
                for i in 0..n_mass {
                    let req = Request::new(Bytes::from_static(b"never sent")).with_header("x-nonce", (3_000_000 + i).to_string());
                    let (c, sid) = (client.clone(), server.peer_id);
                    let give_up_us = 500 + (i % 7) * 400;
                    mass.push(tokio::spawn(async move { tokio::time::timeout(Duration::from_micros(give_up_us), c.net.rpc(sid, req)).await.is_ok() }));
                }
                let mut got_through = 0;
                for m in mass {
                    if m.await.unwrap_or(false) {
                        got_through += 1;
                    }
                }
                let _ = got_through;
                for hnd in holders {
                    if !hnd.await.unwrap_or(false) {
                        w.violate("sibling-failed", "holder", "a call that held a stream while others were abandoned failed".to_string());
                    }
                }
                sleep_ms(10 * lat_max / 1000 + 50).await;
                let fresh = (0..max_bidi).map(|i| {
                    let req = Request::new(Bytes::from(format!("after{i}"))).with_header("x-nonce", (4_000_000 + i).to_string()).with_header("x-resp-len", "5");
                    rpc_bounded(&client, server.peer_id, req, Duration::from_secs(20))
                });
                for (i, r) in futures::future::join_all(fresh).await.iter().enumerate() {
                    if let Err(e) = r {
                        w.violate("fresh-rpc-blocked", "after-mass-abandonment", format!("fresh call {i} of {max_bidi} after {n_mass} calls abandoned while waiting for a stream failed: {e}"));
                        break;
                    }
                }
                w.probe("mass-abandonment-phase");
            }
            // the caller gives up on everything at once *and hangs up* (drops its calls and
            // disconnects in the same instant, or goes away): no stop ever arrives for those
            // calls, the connection itself ends - and with it every handler it was serving
            if !lossy && !w.violated() && w.flag("calls_abandoned_by_hanging_up", 0.25) {
                let n_h = max_bidi.min(4);
                let seen_before = h.seen().len();
                let pending: Vec<_> = (0..n_h).map(|i| {
                    let req = Request::new(Bytes::from(format!("hup{i}"))).with_header("x-nonce", (5_000_000 + i).to_string()).with_header("x-delay-ms", "30000").with_header("x-resp-len", "3");
                    let (c, sid) = (client.clone(), server.peer_id);
                    tokio::spawn(async move { c.net.rpc(sid, req).await.is_ok() })
                }).collect();
                let t0 = w.now_ns();
                while (h.seen().len() - seen_before) < n_h as usize && w.now_ns() - t0 < 2_000_000_000 {
                    sleep_ms(1).await;
                }
                for p in &pending {
                    p.abort();
                }
                let _ = client.net.disconnect(server.peer_id);
                let t_hup = w.now_ns();
                sleep_ms(4 * lat_max / 1000 + 50).await;
                let still: Vec<u64> = h.seen().iter().filter(|s| s.nonce.map(|n| n >= 5_000_000).unwrap_or(false) && s.dropped_at_ns.is_none() && s.completed_at_ns.is_none()).filter_map(|s| s.nonce).collect();
                if !still.is_empty() {
                    w.violate("abandoned-handler-still-running", "hang-up", format!("the caller dropped {n_h} calls and disconnected at {} ms; {} ms later the handlers of {still:?} are still running", t_hup / 1_000_000, (w.now_ns() - t_hup) / 1_000_000));
                }
                w.probe("calls-abandoned-by-hanging-up");
            }
        } else {
            w.probe("connection-lost(lossy)");
        }
        w.sample("calls", json!({"n": n_calls, "limit": max_bidi, "lossy": lossy, "abandoned": results.iter().filter(|r| r.abandoned_at_ns.is_some()).count(),
            "first": calls.iter().take(5).map(|c| json!({"abandon_after_us": c.abandon_after_us, "via_timeout": c.via_timeout_header, "req": c.req_len, "resp": c.resp_len, "handler_ms": c.handler_ms})).collect::<Vec<_>>()}));
        let out = w.finish();
        drop((client, server));
        out
    })
}
