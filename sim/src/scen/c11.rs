//! C11 — request deadline = min(local default, timeout header), end to end.

use super::common::*;
use crate::fabric::LinkCfg;
use crate::model::deadline_ns;
use crate::runner::{ScenFuture, Scenario};
use crate::world::*;
use anemo::types::response::StatusCode;
use anemo::{Request, Response};
use bytes::Bytes;
use rand::Rng;
use serde_json::json;
use std::sync::Arc;
use std::time::Duration;

pub static DEADLINE: Scenario = Scenario {
    id: "C11",
    name: "c11-deadline",
    run,
    quick_runs: 16_000,
    thorough_runs: 300_000,
    rule: "one run = caller and server Networks built by the real Builder::start with PRNG inbound/outbound defaults (each absent or 0..3000 ms), in a third of the runs a final phase where every stream the server grants (1-4) is held by a slow request while a further request with a short timeout header waits for a stream, 1-30 sequential calls with a PRNG timeout header (absent, 0, below/between/above the defaults, u64::MAX, 2^64, non-numeric, negative, padded), PRNG handler duration and API path (Network::rpc, Peer::rpc, Peer as tower Service) on a constant-latency link (deciding configuration) or a jittered link (boundaries skipped); distinct = distinct order signature over per-call (header class, which deadline won, caller outcome, handler outcome); non-trivial = at least one deadline cut a handler or a caller off",
    real: super::REAL_NET,
    stubbed: super::STUB_NET,
};

const MS: u64 = 1_000_000;

fn header_value(r: &mut impl Rng, d_in: Option<u64>, d_out: Option<u64>, h_ms: u64) -> (Option<String>, &'static str) {
    let lo = d_in.unwrap_or(u64::MAX).min(d_out.unwrap_or(u64::MAX)).min(h_ms.max(2));
    let hi = d_in.unwrap_or(0).max(d_out.unwrap_or(0)).max(h_ms);
    match r.gen_range(0..12) {
        0 | 1 => (None, "absent"),
        2 => (Some("0".into()), "zero"),
        3 => (Some(((r.gen_range(1..=lo.max(2)) * MS) / 2).to_string()), "below"),
        4 => (Some((r.gen_range(lo.min(hi)..=hi.max(lo)) * MS + r.gen_range(0..MS)).to_string()), "between"),
        5 => (Some(((hi + r.gen_range(1..5000)) * MS).to_string()), "above"),
        6 => (Some(u64::MAX.to_string()), "u64max"),
        7 => (Some("18446744073709551616".into()), "overflow"),
        8 => (Some(["abc", "", "1e3", "0x10", "12ms", "١٢٣"][r.gen_range(0..6)].into()), "non-numeric"),
        9 => (Some(format!("-{}", r.gen_range(0..1000))), "negative"),
        10 if r.gen_bool(0.5) => {
            // far beyond 64 bits (29 and more digits, still below 2^128): absent like any other
            // value that does not fit, whatever its low-order part would read as
            let n = (1u128 << 64) * 1_000_000_000 * r.gen_range(1..6u128) + if r.gen_bool(0.5) { 0 } else { r.gen_range(0..3_000_000_000u128) };
            (Some(n.to_string()), "overflow")
        }
        10 => (Some(format!(" {} ", r.gen_range(1..100) * MS)), "padded"),
        _ => (Some((r.gen_range(1..(2 * hi.max(2))) * MS).to_string()), "random"),
    }
}

fn run(input: RunInput) -> ScenFuture {
    Box::pin(async move {
        let w = World::new(&input, LinkCfg::constant(1000));
        let constant = w.flag("constant_latency", 0.7);
        let lat_max_us = w.param("lat_max_us", 300, 25_000) as u64;
        let lat_min_us = if constant { lat_max_us } else { 200.min(lat_max_us) };
        let d_in = w.flag("inbound_default", 0.7).then(|| w.param("inbound_default_ms", 0, 3000) as u64);
        let d_out = w.flag("outbound_default", 0.7).then(|| w.param("outbound_default_ms", 0, 3000) as u64);
        let n_calls = w.param("calls", 1, if w.tier == Tier::Quick { 30 } else { 80 }) as u64;
        // the transport's idle timeout is no request deadline: with keep-alives flowing, a handler
        // may take longer than it (in part of the runs it is shorter than most handler durations)
        let idle_ms = if w.flag("short_transport_idle_timeout", 0.4) { w.param("idle_ms", 600, 5_000) as u64 } else { 60_000 };
        let ka_ms = (idle_ms / 4).min(5_000);
        let mut cfg_s = base_config(idle_ms, Some(ka_ms));
        cfg_s.inbound_request_timeout_ms = d_in;
        // the server's outbound default and the caller's inbound default must not matter
        cfg_s.outbound_request_timeout_ms = w.flag("decoy_server_outbound", 0.5).then_some(1);
        let mut cfg_c = base_config(idle_ms, Some(ka_ms));
        cfg_c.outbound_request_timeout_ms = d_out;
        cfg_c.inbound_request_timeout_ms = w.flag("decoy_caller_inbound", 0.5).then_some(1);
        // a small stream budget granted by the server: requests waiting for a stream are waiting
        // all the same, and the caller-side deadline covers that wait too
        let starved = w.flag("stream_starvation_phase", 0.35);
        let budget = w.param("server_bidi_stream_budget", 1, 4) as u64;
        // (a second server, so that the sequential calls above never wait for stream credit)
        let mut cfg_s2 = cfg_s.clone();
        cfg_s2.inbound_request_timeout_ms = d_in;
        cfg_s2.quic.as_mut().unwrap().max_concurrent_bidi_streams = Some(budget);
        let plan: PlanFn = Arc::new(|req: &Request<Bytes>| Plan {
            delay: Duration::from_micros(req.headers().get("x-delay-us").and_then(|v| v.parse().ok()).unwrap_or(0)),
            response: Response::new(req.body().clone()).with_header("x-done", "1"),
            hold: Duration::ZERO,
        });
        let svc = Svc::new(&w, plan.clone());
        let h = svc.handle();
        let server = w.start_node(w.spec_exact(2, cfg_s), svc).unwrap();
        let svc2 = Svc::new(&w, plan.clone());
        let h2 = svc2.handle();
        let server2 = starved.then(|| w.start_node(w.spec_exact(3, cfg_s2), svc2).unwrap());
        // the defaults must take effect on every RPC made through a network, however it was built:
        // with or without a user-supplied outbound request layer
        let mut spec_c = w.spec_exact(1, cfg_c);
        spec_c.user_outbound_layer = w.flag("caller_has_user_outbound_layer", 0.4);
        // ... which may hold requests back (a throttle): the time spent there counts against the
        // caller's deadline like any other
        let hold_us = if spec_c.user_outbound_layer && w.flag("user_layer_holds_requests_back", 0.5) { w.param("user_layer_hold_ms", 1, 400) as u64 * 1000 } else { 0 };
        // ... or keep the caller's task busy on an always-ready resource for that long
        let layer_busy = hold_us > 0 && w.flag("user_layer_is_busy_not_asleep", 0.3);
        let hold_us = if layer_busy { hold_us.min(100_000) } else { hold_us };
        spec_c.user_outbound_delay = Duration::from_micros(hold_us);
        spec_c.user_outbound_busy = layer_busy;
        let client = w.start_node(spec_c, Svc::echo(&w)).unwrap();
        if client.net.connect_with_peer_id(server.addr, server.peer_id).await.is_err() {
            w.harness_error("setup connect failed");
        }
        // warm up the path (handshake confirmation, first acks) on a fast link, then fix the latency
        let _ = probe(&w, &client, server.peer_id, 0, Duration::from_secs(5)).await;
        sleep_ms(200).await;
        w.fabric.set_default_link(LinkCfg::clean(lat_min_us, lat_max_us));
        let (lmin, lmax) = (lat_min_us * 1000, lat_max_us * 1000);
        // (tokio timers fire on millisecond boundaries: a held-back request, two deliveries and a handler
        // asleep are four timers, each up to 1 ms late - thorough-tier seed 15562941519450906931)
        let margin = if constant { 6 * MS } else { 3 * lmax + 30 * MS };
        let mut r = w.rng("wl:calls");
        // in some runs a part of the handlers is busy on an always-ready resource instead of
        // sleeping (world::busy_on_a_hot_resource): deadlines hold for a handler that never
        // returns Pending on its own too. The process is one busy thread then, timers fire at the
        // next turn of the timer driver: 40 ms of slack for those calls
        let busy_run = w.flag("handlers_busy_on_a_hot_resource", 0.15);
        let mut r_busy = w.rng("wl:busy");
        let margin_base = margin;
        let mut retired_raw = Vec::new();
        let mut cut = 0u64;
        let mut skipped = 0u64;
        let mut samples = Vec::new();
        for i in 0..n_calls {
            let h_us: u64 = match r.gen_range(0..4) {
                0 => 0,
                1 => r.gen_range(0..20_000),
                _ => r.gen_range(0..4_000_000),
            };
            let busy_call = busy_run && r_busy.gen_bool(0.3);
            let h_us = if busy_call { (h_us / 1000).min(300) * 1000 } else { h_us };
            let slack = if busy_call || layer_busy { 40 * MS } else { 0 };
            let margin = margin_base + slack;
            // ... or starts with a synchronous CPU-bound stretch inside its first poll and awaits
            // only then: the deadline counts from the call all the same, and is acted on as soon
            // as the handler yields
            let burn_ms: u64 = if busy_run && !busy_call && r_busy.gen_bool(0.25) { r_busy.gen_range(5..200) } else { 0 };
            let h_us = if burn_ms > 0 { h_us.min(600_000) } else { h_us };
            let (hdr, class) = header_value(&mut r, d_in, d_out, h_us / 1000 + burn_ms);
            let api = r.gen_range(0..5);
            let mut req = Request::new(Bytes::from(format!("c{i}"))).with_header("x-nonce", i.to_string());
            req = if busy_call { req.with_header("x-busy-ms", (h_us / 1000).to_string()) } else { req.with_header("x-delay-us", h_us.to_string()) };
            if busy_call {
                w.probe("call-with-busy-handler");
            }
            if burn_ms > 0 {
                req = req.with_header("x-burn-ms", burn_ms.to_string());
            }
            if let Some(v) = &hdr {
                req = req.with_header("timeout", v.clone());
            }
            let dc = deadline_ns(d_out.map(|d| d * MS), hdr.as_deref());
            let ds = deadline_ns(d_in.map(|d| d * MS), hdr.as_deref());
            let t0 = w.now_ns();
            let res = match api {
                0 => client.net.rpc(server.peer_id, req).await,
                1 => client.net.peer(server.peer_id).unwrap().rpc(req).await,
                2 => tower::ServiceExt::oneshot(client.net.peer(server.peer_id).unwrap(), req).await,
                4 => {
                    // the typed client every generated client method goes through (identity codec)
                    let mut typed = anemo::rpc::client::Rpc::new(client.net.peer(server.peer_id).unwrap());
                    match typed.unary(req, anemo::rpc::codec::IdentityCodec::new("bytes")).await {
                        Ok(resp) => Ok(resp),
                        Err(st) if st.status() == StatusCode::RequestTimeout => Ok(Response::new(Bytes::new()).with_status(StatusCode::RequestTimeout)),
                        Err(st) => Err(anyhow::anyhow!("{st:?}")),
                    }
                }
                _ => {
                    // polled once in this task (a select! probe, futures::poll!), then handed to
                    // another task that drives it to the end
                    let (net, sid) = (client.net.clone(), server.peer_id);
                    let mut fut = Box::pin(async move { net.rpc(sid, req).await });
                    match futures::poll!(fut.as_mut()) {
                        std::task::Poll::Ready(r) => r,
                        std::task::Poll::Pending => tokio::spawn(fut).await.unwrap(),
                    }
                }
            };
            let t1 = w.now_ns();
            // let the cancellation (if any) reach the server before reading its log
            sleep_us(2 * lat_max_us + 3000 + slack / 1000).await;
            let seen = h.seen().into_iter().find(|s| s.nonce == Some(i));
            let h_ns = h_us * 1000;
            let key = format!("hdr={class} in={} out={}", d_in.is_some(), d_out.is_some());
            let caller = match &res {
                Ok(resp) if resp.status() == StatusCode::Success => "ok",
                Ok(resp) if resp.status() == StatusCode::RequestTimeout => "status-timeout",
                Ok(_) => "other-status",
                Err(e) if format!("{e:#}").contains("Timeout expired") => "timeout-error",
                Err(_) => "other-error",
            };
            let mut handler = "none";
            if let Some(s) = &seen {
                // the deadline machinery must not rewrite what the caller sent
                if s.headers.get("timeout") != hdr.as_ref() {
                    w.violate("timeout-header-rewritten-in-transit", format!("hdr={class}"), format!("call {i}: caller sent timeout header {hdr:?}, the handler saw {:?} (outbound default {d_out:?} ms)", s.headers.get("timeout")));
                }
                handler = if s.completed_at_ns.is_some() { "completed" } else if s.dropped_at_ns.is_some() { "dropped" } else { "running" };
            }
            w.event(format!("{class}:{caller}:{handler}"));
            if samples.len() < 6 {
                samples.push(json!({"header": hdr, "class": class, "handler_us": h_us, "model_caller_deadline_ns": dc, "model_server_deadline_ns": ds, "caller": caller, "handler": handler, "took_ms": (t1 - t0) / MS}));
            }
            if caller == "other-status" || caller == "other-error" {
                w.violate("unexpected-rpc-outcome", key.clone(), format!("call {i}: {:?}", res.as_ref().map(|r| r.status()).map_err(|e| format!("{e:#}"))));
                continue;
            }
            if burn_ms > 0 {
                // the process is one thread: while the handler burns CPU nobody else runs, so only
                // calls whose caller-side deadline is out of the picture are judged, and only on
                // the serving side's decision
                let burn_ns = burn_ms * MS;
                let total = burn_ns + h_ns;
                if dc.map(|d| d > hold_us * 1000 + total + burn_ns + 4 * lmax + 100 * MS).unwrap_or(true) {
                    // a handler that finishes within its first poll cannot be cut off
                    let ds_eff = if h_us == 0 { None } else { ds.map(|d| d.max(burn_ns)) };
                    let expect = match ds_eff {
                        Some(d) if total > d.saturating_add(margin_base) => Some("status-timeout"),
                        Some(d) if total.saturating_add(margin_base) >= d => None,
                        _ => Some("ok"),
                    };
                    w.probe("call-with-cpu-bound-first-poll");
                    match expect {
                        None => skipped += 1,
                        Some(e) if e != caller => {
                            let class_v = if e == "ok" { "server-cut-off-early" } else { "server-deadline-not-enforced" };
                            w.violate(class_v, key.clone(), format!("call {i}: header {hdr:?}, inbound default {d_in:?} ms, handler CPU-bound for {burn_ms} ms in its first poll and then asleep for {h_us} us: model expects caller outcome {e}, got {caller} after {} ms", (t1 - t0) / MS));
                        }
                        Some("status-timeout") => {
                            cut += 1;
                            if let (Some(s), Some(d)) = (&seen, ds_eff) {
                                let sc = s.at_ns.saturating_add(d);
                                match s.dropped_at_ns {
                                    Some(at) if at >= sc && at <= sc + 2 * MS => {}
                                    other => w.violate("handler-dropped-at-wrong-instant", key.clone(), format!("call {i}: handler (CPU-bound for {burn_ms} ms, then asleep) dropped {:?} us after its start, model server deadline {} us", other.map(|at| (at - s.at_ns) / 1000), d / 1000)),
                                }
                            }
                        }
                        _ => {}
                    }
                } else {
                    skipped += 1;
                }
                continue;
            }
            // ---- caller side ----
            // the response (success or RequestTimeout) would arrive at s + min(h, ds) + L
            let serve_ns = ds.map(|d| d.min(h_ns)).unwrap_or(h_ns);
            let earliest_resp = t0 + hold_us * 1000 + lmin + serve_ns + lmin;
            let latest_resp = t0 + hold_us * 1000 + lmax + serve_ns + lmax;
            let caller_deadline = dc.map(|d| t0.saturating_add(d));
            let expect_caller = match caller_deadline {
                Some(cd) if cd.saturating_add(margin) < earliest_resp => Some("timeout-error"),
                Some(cd) if cd <= latest_resp + margin => None, // too close to call
                _ => {
                    // response wins; success or RequestTimeout decided at the server
                    match ds {
                        Some(d) if h_ns > d.saturating_add(margin) => Some("status-timeout"),
                        Some(d) if h_ns.saturating_add(margin) >= d => None,
                        _ => Some("ok"),
                    }
                }
            };
            match expect_caller {
                None => skipped += 1,
                Some(e) => {
                    if e != caller {
                        let class_v = match (e, caller) {
                            ("timeout-error", _) => "caller-deadline-not-enforced",
                            ("status-timeout", "ok") => "server-deadline-not-enforced",
                            ("status-timeout", "timeout-error") | ("ok", "timeout-error") => "caller-cut-off-early",
                            ("ok", "status-timeout") => "server-cut-off-early",
                            _ => "deadline-outcome-mismatch",
                        };
                        w.violate(class_v, key.clone(), format!("call {i}: header {hdr:?}, inbound default {d_in:?} ms, outbound default {d_out:?} ms, handler {h_us} us: model expects caller outcome {e}, got {caller} after {} ms", (t1 - t0) / MS));
                    } else if e == "timeout-error" {
                        cut += 1;
                        let at = caller_deadline.unwrap();
                        if t1 + 0 < at || t1 > at + 2 * MS + slack {
                            w.violate("caller-timeout-at-wrong-instant", key.clone(), format!("call {i}: timeout error at {} us after the call, model deadline {} us", (t1 - t0) / 1000, dc.unwrap() / 1000));
                        }
                    }
                }
            }
            // ---- server side ----
            if let Some(s) = &seen {
                let start = s.at_ns;
                // when the caller's own abandonment reaches the server
                let abandon_at = caller_deadline.map(|cd| cd.saturating_add(lmin));
                let natural = start + h_ns;
                let server_cut = ds.map(|d| start.saturating_add(d));
                let first_cut = [abandon_at, server_cut].into_iter().flatten().min();
                match first_cut {
                    Some(c) if c.saturating_add(margin) < natural => {
                        // must be dropped, and (when the server deadline is the cause) exactly then
                        cut += 1;
                        match s.dropped_at_ns {
                            None => {
                                w.violate("handler-not-cut-off", key.clone(), format!("call {i}: handler needing {h_us} us was not dropped although deadline {} us (server) / abandonment applied; header {hdr:?}", ds.unwrap_or(0) / 1000));
                            }
                            Some(d) => {
                                let server_first = server_cut.map(|sc| abandon_at.map(|a| sc.saturating_add(margin) < a).unwrap_or(true)).unwrap_or(false);
                                if server_first {
                                    let sc = server_cut.unwrap();
                                    if d < sc || d > sc + 2 * MS + slack {
                                        w.violate("handler-dropped-at-wrong-instant", key.clone(), format!("call {i}: handler dropped {} us after its start, model server deadline {} us", (d - start) / 1000, ds.unwrap() / 1000));
                                    }
                                }
                            }
                        }
                    }
                    Some(c) if c <= natural + margin => {}
                    _ => {
                        if s.completed_at_ns.is_none() {
                            w.violate("handler-cut-off-without-deadline", key.clone(), format!("call {i}: handler needing {h_us} us was dropped although no deadline applied before its completion (header {hdr:?}, defaults in {d_in:?} out {d_out:?})"));
                        }
                    }
                }
            }
        }
        // ---- a caller that does not enforce anything itself (a raw QUIC peer speaking anemo's
        //      wire format): whatever deadline applies is the serving side's doing alone - its
        //      default, the header, or the smaller of the two ----
        if w.flag("raw_caller_phase", 0.4) && !w.violated() {
            use crate::adversary::{adv_endpoint, gen_cert, AdvSpec};
            use crate::model::wire;
            let k_raw = w.key_for(9);
            let raw = adv_endpoint(&w, AdvSpec {
                idx: 9, port: 7000, chain: vec![gen_cert(&k_raw, "sim")], sign_key: k_raw, present_client_cert: true,
                idle_ms: 60_000, keep_alive_ms: Some(5_000), max_bidi: 100,
            });
            match raw.dial(server.addr, "sim", 5_000).await {
                Err(e) => w.harness_error(&format!("raw caller could not connect: {e}")),
                Ok(conn) => {
                    sleep_ms(100).await;
                    for k in 0..w.param("raw_calls", 1, 4) as u64 {
                        let nonce = 5_000 + k;
                        let h_us: u64 = match r.gen_range(0..3) {
                            0 => r.gen_range(0..20_000),
                            _ => r.gen_range(0..4_000_000),
                        };
                        let (hdr, class) = header_value(&mut r, d_in, None, h_us / 1000);
                        let ds = deadline_ns(d_in.map(|d| d * MS), hdr.as_deref());
                        let mut hdrs = vec![("x-nonce".to_string(), nonce.to_string()), ("x-delay-us".to_string(), h_us.to_string())];
                        if let Some(v) = &hdr {
                            hdrs.push(("timeout".to_string(), v.clone()));
                        }
                        let Ok(Ok((mut tx, mut rx))) = tokio::time::timeout(Duration::from_secs(5), conn.open_bi()).await else {
                            w.harness_error("raw caller could not open a stream");
                            break;
                        };
                        let _ = tx.write_all(&wire::encode_request(1, "/raw", &hdrs, b"raw")).await;
                        let _ = tx.finish();
                        let resp = tokio::time::timeout(Duration::from_micros(h_us + 10_000_000), rx.read_to_end(1 << 16)).await;
                        let status = match &resp {
                            Ok(Ok(b)) => wire::decode_response(b).ok().and_then(|d| d.status),
                            _ => None,
                        };
                        sleep_us(2 * lat_max_us + 3000).await;
                        let seen = h.seen().into_iter().find(|s| s.nonce == Some(nonce));
                        let key = format!("hdr={class} in={}", d_in.is_some());
                        let h_ns = h_us * 1000;
                        w.event(format!("raw {class}:{status:?}"));
                        let Some(sn) = seen else {
                            w.violate("raw-request-not-served", key, format!("raw call {k}: the handler never saw it (status {status:?})"));
                            break;
                        };
                        match ds {
                            Some(d) if d.saturating_add(margin) < h_ns => {
                                cut += 1;
                                if status != Some(408) {
                                    w.violate("server-deadline-not-enforced", key.clone(), format!("raw call {k}: header {hdr:?}, inbound default {d_in:?} ms, handler {h_us} us: the serving side must answer RequestTimeout, the raw caller got {status:?}"));
                                }
                                match sn.dropped_at_ns {
                                    None => w.violate("handler-not-cut-off", key.clone(), format!("raw call {k}: handler needing {h_us} us was not dropped although the server-side deadline is {} us (header {hdr:?})", d / 1000)),
                                    Some(t) => {
                                        let at = sn.at_ns.saturating_add(d);
                                        if t < at || t > at + 2 * MS {
                                            w.violate("handler-dropped-at-wrong-instant", key.clone(), format!("raw call {k}: handler dropped {} us after its start, model server deadline {} us", (t - sn.at_ns) / 1000, d / 1000));
                                        }
                                    }
                                }
                            }
                            Some(d) if h_ns.saturating_add(margin) >= d => skipped += 1,
                            _ => {
                                if status != Some(200) || sn.completed_at_ns.is_none() {
                                    w.violate("server-cut-off-early", key.clone(), format!("raw call {k}: header {hdr:?}, inbound default {d_in:?} ms, handler {h_us} us: no deadline applies before completion, yet status {status:?}, handler completed = {}", sn.completed_at_ns.is_some()));
                                }
                            }
                        }
                        if w.violated() {
                            break;
                        }
                    }
                    w.probe("raw-caller-phase");
                    conn.close(0u32.into(), b"");
                    sleep_us(2 * lat_max_us + 3000).await;
                }
            }
            retired_raw.push(raw);
        }
        // ---- a stall of the whole process (a suspended VM, a long stop-the-world pause): the clock
        //      jumps across both the handler's completion and the serving side's deadline. The
        //      handler needed less than the deadline, so it "is answered normally"; only a caller
        //      without a deadline of its own can tell (its own would have expired in the jump) ----
        if let (Some(din), None) = (d_in, d_out) {
            if din >= 100 && idle_ms >= 60_000 && !w.violated() && w.flag("clock_jump_phase", 0.5) {
                let h_ms = r.gen_range(5..din.min(400) - 40);
                let jump_ms = (din - h_ms / 2) + r.gen_range(50..400);
                let req = Request::new(Bytes::from_static(b"jump")).with_header("x-nonce", "5000").with_header("x-delay-us", (h_ms * 1000).to_string());
                let fut = client.net.rpc(server.peer_id, req);
                let jumper = async {
                    sleep_us(h_ms * 1000 / 2 + 2 * lat_max_us).await;
                    tokio::time::advance(Duration::from_millis(jump_ms)).await;
                };
                let (res, _) = futures::future::join(fut, jumper).await;
                let ok = matches!(&res, Ok(resp) if resp.status() == anemo::types::response::StatusCode::Success && resp.headers().get("x-done").is_some());
                if !ok {
                    w.violate("handler-needing-less-not-answered-normally", format!("in={din}"), format!("a handler needing {h_ms} ms under a serving-side deadline of {din} ms, with the whole process stalled for {jump_ms} ms from {} ms on: the caller received {:?}", h_ms / 2, res.as_ref().map(|r| r.status()).map_err(|e| format!("{e:#}"))));
                }
                w.probe("clock-jump-across-completion-and-deadline");
                sleep_us(2 * lat_max_us + 3000).await;
            }
        }
        // ---- the wait for a stream counts: with the server's stream budget taken by slow
        //      requests, a further request with a short timeout header fails at its deadline ----
        let occupancy_ms = d_out.unwrap_or(u64::MAX).min(d_in.unwrap_or(u64::MAX)).min(3_000);
        if starved && occupancy_ms >= 200 && !w.violated() {
            let server = server2.as_ref().unwrap();
            if client.net.connect_with_peer_id(server.addr, server.peer_id).await.is_err() {
                w.harness_error("setup connect to the second server failed");
            }
            let _ = probe(&w, &client, server.peer_id, 3_000, Duration::from_secs(5)).await;
            sleep_us(4 * lat_max_us + 5_000).await;
            let mut holders = Vec::new();
            for k in 0..budget {
                let (net, pid) = (client.net.clone(), server.peer_id);
                let req = Request::new(Bytes::from(format!("hold{k}"))).with_header("x-nonce", (1_000 + k).to_string()).with_header("x-delay-us", "3000000");
                holders.push(tokio::spawn(async move { net.rpc(pid, req).await.map(|r| r.status()).map_err(|e| format!("{e:#}")) }));
            }
            // wait until the holders really hold the streams (their handlers run): a stream the
            // probe used comes back only with the server's next MAX_STREAMS, and whoever waits for
            // it at that moment may get it
            let t_wait = w.now_ns();
            while (h2.seen().iter().filter(|s| s.nonce.map(|n| (1_000..1_000 + budget).contains(&n)).unwrap_or(false)).count() as u64) < budget && w.now_ns() - t_wait < 1_000 * MS {
                sleep_us(1_000).await;
            }
            sleep_us(2 * lat_max_us + 2_000).await;
            let occupancy_ms = occupancy_ms.saturating_sub((w.now_ns() - t_wait) / MS);
            let t_ms = r.gen_range(1..=(occupancy_ms / 2).saturating_sub(2 * lat_max_us / 1000 + 5).max(1));
            let req = Request::new(Bytes::from_static(b"starved")).with_header("x-nonce", "2000").with_header("timeout", (t_ms * MS).to_string());
            let t0 = w.now_ns();
            let res = client.net.rpc(server.peer_id, req).await;
            let took = w.now_ns() - t0;
            let is_timeout = matches!(&res, Err(e) if format!("{e:#}").contains("Timeout expired"));
            let key = format!("budget={budget} out={}", d_out.is_some());
            if !is_timeout {
                w.violate("caller-deadline-not-enforced-while-waiting-for-a-stream", key, format!("with all {budget} streams the server grants taken by slow requests, a request with timeout header {t_ms} ms returned {:?} after {} ms", res.as_ref().map(|r| r.status()).map_err(|e| format!("{e:#}")), took / MS));
            } else if took < t_ms * MS || took > t_ms * MS + 2 * MS {
                w.violate("caller-timeout-at-wrong-instant", key, format!("waiting for a stream: timeout header {t_ms} ms, timeout error after {} us", took / 1000));
            }
            w.probe("stream-starved-call");
            for hnd in holders {
                let _ = hnd.await;
            }
        }
        // ---- a node that forwards: its handler passes the request object it received on to another
        //      peer as it is. The forwarded call is an outbound call of the relay like any other:
        //      its deadline is the smaller of the relay's outbound default and the header the
        //      request carries, whatever else the received request brought along ----
        let mut relay_nodes = Vec::new();
        if !w.violated() && w.flag("relay_forwards_the_received_request", 0.2) {
            let d_r = w.param("relay_outbound_default_ms", 100, 800) as u64;
            let slow_ms = d_r + w.param("relay_target_extra_ms", 300, 1_500) as u64;
            let plain = base_config(60_000, Some(5_000));
            let s3 = w.start_node(w.spec_exact(6, plain.clone()), Svc::echo(&w)).unwrap();
            let mut cfg_r = plain.clone();
            cfg_r.outbound_request_timeout_ms = Some(d_r);
            // (the relay's own inbound default, if any, is far away)
            cfg_r.inbound_request_timeout_ms = w.flag("relay_has_inbound_default", 0.5).then_some(20_000);
            let (s3_id, w3) = (s3.peer_id, w.clone());
            let relay_svc = tower::service_fn(move |req: Request<Bytes>| {
                let w3 = w3.clone();
                async move {
                    let net = req.extensions().get::<anemo::NetworkRef>().and_then(|n| n.upgrade());
                    let t0 = w3.now_ns();
                    let out = match net {
                        Some(net) => match net.rpc(s3_id, req).await {
                            Ok(r) => format!("ok:{:?}", r.status()),
                            Err(e) => format!("err:{e:#}"),
                        },
                        None => "no-network".to_string(),
                    };
                    Ok::<_, std::convert::Infallible>(Response::new(Bytes::from(format!("{}|{out}", (w3.now_ns() - t0) / 1000))))
                }
            });
            let relay = w.start_node(w.spec_exact(5, cfg_r), relay_svc).unwrap();
            let c2 = w.start_node(w.spec_exact(7, plain), Svc::echo(&w)).unwrap();
            if relay.net.connect_with_peer_id(s3.addr, s3.peer_id).await.is_err() || c2.net.connect_with_peer_id(relay.addr, relay.peer_id).await.is_err() {
                w.harness_error("relay setup failed");
            }
            sleep_ms(200).await;
            // the caller states no deadline, or one far beyond everything here
            let hdr = r.gen_bool(0.5).then(|| (10_000 * MS).to_string());
            let mut req = Request::new(Bytes::from_static(b"via-relay")).with_header("x-nonce", "7000").with_header("x-delay-ms", slow_ms.to_string());
            if let Some(h) = &hdr {
                req = req.with_header("timeout", h.clone());
            }
            let res = tokio::time::timeout(Duration::from_secs(30), c2.net.rpc(relay.peer_id, req)).await;
            let key = format!("relay hdr={} relay_in={}", if hdr.is_some() { "above" } else { "absent" }, true);
            match res {
                Ok(Ok(resp)) => {
                    let body = String::from_utf8_lossy(resp.body()).to_string();
                    let (us, out) = body.split_once('|').unwrap_or(("0", "?"));
                    let took_us: u64 = us.parse().unwrap_or(0);
                    let timed_out = out.starts_with("err:") && out.contains("Timeout expired");
                    if !timed_out || took_us < d_r * 1000 || took_us > d_r * 1000 + 6_000 {
                        w.violate("caller-deadline-not-enforced", key, format!("a relay with an outbound default of {d_r} ms forwarded the request object it had received (timeout header {hdr:?}) to a peer whose handler needs {slow_ms} ms: its call ended with {out:?} after {} ms instead of a timeout error at {d_r} ms", took_us / 1000));
                    }
                }
                other => w.violate("unexpected-rpc-outcome", key, format!("call through the relay: {:?}", other.map(|r| r.map(|x| x.status()).map_err(|e| format!("{e:#}"))))),
            }
            w.probe("relay-forwarded-the-received-request");
            relay_nodes.push(s3);
            relay_nodes.push(relay);
            relay_nodes.push(c2);
        }
        // ---- a request that takes long to arrive: a body pushed through a tiny flow-control window
        //      needs several times the serving side's deadline to get there. The deadline is the
        //      handler's: it starts when the request is handed to the service, and a handler
        //      needing a fraction of it is answered normally ----
        if !w.violated() && w.flag("request_slow_to_arrive", 0.15) {
            let d4 = w.param("slow_arrival_inbound_default_ms", 100, 600) as u64;
            let window = w.param("slow_arrival_stream_window", 512, 2_048) as u64;
            let rtt_ms = (2 * lat_max_us / 1000).max(1);
            let body_len = (window * (3 * d4 / rtt_ms).max(4)).min(400_000) as usize;
            let mut cfg4 = base_config(60_000, Some(5_000));
            cfg4.inbound_request_timeout_ms = Some(d4);
            cfg4.quic.as_mut().unwrap().stream_receive_window = Some(window);
            let s4 = w.start_node(w.spec_exact(30, cfg4), Svc::echo(&w)).unwrap();
            let c4 = w.start_node(w.spec_exact(31, base_config(60_000, Some(5_000))), Svc::echo(&w)).unwrap();
            if c4.net.connect_with_peer_id(s4.addr, s4.peer_id).await.is_err() {
                w.harness_error("slow-arrival setup failed");
            }
            sleep_ms(100).await;
            let body = Bytes::from(vec![0x5Au8; body_len]);
            let t0 = w.now_ns();
            let res = tokio::time::timeout(Duration::from_secs(300), c4.net.rpc(s4.peer_id, Request::new(body.clone()).with_header("x-delay-ms", (d4 / 10).to_string()))).await;
            let took_ms = (w.now_ns() - t0) / MS;
            match res {
                Ok(Ok(resp)) if resp.status() == StatusCode::Success && resp.body() == &body => {}
                other => w.violate("server-cut-off-early", "slow-arrival", format!("a request of {body_len} bytes through a stream window of {window} bytes (round trip {rtt_ms} ms) took {took_ms} ms; the handler needs {} ms, the serving side's deadline is {d4} ms: expected Success, got {:?}", d4 / 10, other.map(|r| r.map(|x| (x.status(), x.body().len())).map_err(|e| format!("{e:#}"))))),
            }
            if took_ms > d4 {
                w.probe("request-arrival-longer-than-the-serving-deadline");
            }
            relay_nodes.push(s4);
            relay_nodes.push(c4);
        }
        // ---- the connection is replaced while a call is in flight (the caller dials the peer again):
        //      the call ends with the connection it was made on, or at its deadline - not later ----
        if !w.violated() && w.flag("connection_replaced_mid_call", 0.15) {
            let d5 = w.param("replaced_outbound_default_ms", 400, 1_500) as u64;
            let mut cfg5 = base_config(60_000, Some(5_000));
            cfg5.outbound_request_timeout_ms = Some(d5);
            let s5 = w.start_node(w.spec_exact(32, base_config(60_000, Some(5_000))), Svc::echo(&w)).unwrap();
            let c5 = std::sync::Arc::new(w.start_node(w.spec_exact(33, cfg5), Svc::echo(&w)).unwrap());
            if c5.net.connect_with_peer_id(s5.addr, s5.peer_id).await.is_err() {
                w.harness_error("replacement setup failed");
            }
            sleep_ms(100).await;
            let t0 = w.now_ns();
            let (c5b, sid, w5) = (c5.clone(), s5.peer_id, w.clone());
            let call = tokio::spawn(async move {
                let r = c5b.net.rpc(sid, Request::new(Bytes::from_static(b"slow")).with_header("x-delay-ms", (3 * d5).to_string())).await;
                (w5.now_ns(), r.map(|x| x.status()).map_err(|e| format!("{e:#}")))
            });
            sleep_ms(d5 / 2).await;
            let _ = c5.net.connect_with_peer_id(s5.addr, s5.peer_id).await;
            match tokio::time::timeout(Duration::from_secs(30), call).await {
                Ok(Ok((t_end, outcome))) => {
                    if t_end > t0 + d5 * MS + margin_base + 5 * MS || outcome.is_ok() {
                        w.violate("caller-deadline-not-enforced", "connection-replaced-mid-call", format!("outbound default {d5} ms, handler {} ms, the caller dialed the peer again {} ms into the call: the call ended {} ms after it began with {outcome:?}", 3 * d5, d5 / 2, (t_end - t0) / MS));
                    }
                }
                other => w.violate("unexpected-rpc-outcome", "connection-replaced-mid-call", format!("{other:?}")),
            }
            w.probe("connection-replaced-mid-call");
            relay_nodes.push(s5);
            if let Ok(c5) = std::sync::Arc::try_unwrap(c5) {
                relay_nodes.push(c5);
            }
        }
        w.probe_n("cut-offs", cut);
        w.probe_n("skipped-near-boundary", skipped);
        if cut > 0 { w.mark_overlap(); }
        w.sample("calls", json!({"inbound_default_ms": d_in, "outbound_default_ms": d_out, "latency_us": [lat_min_us, lat_max_us], "calls": samples}));
        let out = w.finish();
        drop((client, server, server2, retired_raw, relay_nodes));
        out
    })
}
