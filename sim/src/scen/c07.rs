//! C07 — wire format: exact layout, lossless round trip, total decoder.
//!
//! The real codecs (hook H6 wrappers) run over a simulated byte stream whose reads and writes
//! are short, return `Pending`, hit EOF or fail at chosen offsets.

use crate::fabric::LinkCfg;
use crate::model::wire;
use crate::runner::{ScenFuture, Scenario};
use crate::world::*;
use anemo::types::response::StatusCode;
use anemo::verif::net as codec;
use anemo::{Request, Response};
use bytes::Bytes;
use rand::Rng;
use serde_json::json;
use std::io;
use std::pin::Pin;
use std::task::{Context, Poll};
use tokio::io::{AsyncRead, AsyncWrite, ReadBuf};
use tokio_util::codec::{FramedRead, FramedWrite};

pub static STREAM: Scenario = Scenario {
    id: "C07",
    name: "c07-codec-stream",
    run,
    quick_runs: 30_000,
    thorough_runs: 2_000_000,
    rule: "one run = one PRNG message (request or response; route, 0-6 headers, body 0-6 KiB, status from the closed set, extensions attached) pushed through the real writers and readers over a simulated byte stream with PRNG short reads/writes and Pending; enumerated completely per message: EOF at every strict prefix length, an I/O error at every read offset (sampled above 1 KiB), every preamble byte altered; plus a differential run of 40 single-byte mutations and 10 random byte strings against the reference decoder; distinct = distinct (message shape, fault offset class, verdict) signature; non-trivial = every run (faults are always injected)",
    real: &["anemo wire.rs (write_request/read_request/write_response/read_response/version frame codec, network_message_frame_codec)", "anemo Request/Response/RawHeader types, StatusCode::new, Version::new", "tokio-util LengthDelimitedCodec + FramedRead/FramedWrite, bincode"],
    stubbed: &["QUIC streams (simulated AsyncRead/AsyncWrite with short I/O, Pending, EOF and errors at chosen offsets)"],
};

pub static CLOSED_SETS: Scenario = Scenario {
    id: "C07",
    name: "c07-closed-sets",
    run: run_closed_sets,
    quick_runs: 16,
    thorough_runs: 64,
    rule: "one run = complete enumeration of all 65536 version values in the preamble and all 65536 status codes in a response header (exactly version 1 and the 8 listed status codes are accepted), all 256 values of the reserved byte, and the golden vectors that pin the byte layout; distinct = each enumerated value; non-trivial = all",
    real: &["anemo wire.rs readers, StatusCode::new, Version::new"],
    stubbed: &["QUIC streams (in-memory byte slices)"],
};

// ---------------------------------------------------------------------------------------------
// simulated byte stream
// ---------------------------------------------------------------------------------------------

pub struct SimStream {
    data: Vec<u8>,
    pos: usize,
    chunk: Vec<usize>,
    chunk_i: usize,
    pending_every: u32,
    eof_at: usize,
    err_at: Option<usize>,
    pub polls: u64,
    pub written: Vec<u8>,
    write_err_at: Option<usize>,
}

impl SimStream {
    pub fn reader(data: Vec<u8>, chunk: Vec<usize>, pending_every: u32) -> Self {
        let eof_at = data.len();
        // (a stream that is *always* pending would never make progress: 1 means every other poll)
        let pending_every = if pending_every == 1 { 2 } else { pending_every };
        SimStream { data, pos: 0, chunk, chunk_i: 0, pending_every, eof_at, err_at: None, polls: 0, written: Vec::new(), write_err_at: None }
    }
    pub fn writer(chunk: Vec<usize>, pending_every: u32) -> Self {
        Self::reader(Vec::new(), chunk, pending_every)
    }
    fn next_chunk(&mut self) -> usize {
        let c = self.chunk[self.chunk_i % self.chunk.len()].max(1);
        self.chunk_i += 1;
        c
    }
}

impl AsyncRead for SimStream {
    fn poll_read(mut self: Pin<&mut Self>, cx: &mut Context<'_>, buf: &mut ReadBuf<'_>) -> Poll<io::Result<()>> {
        self.polls += 1;
        if self.pending_every > 0 && self.polls % self.pending_every as u64 == 0 {
            cx.waker().wake_by_ref();
            return Poll::Pending;
        }
        if self.err_at == Some(self.pos) {
            return Poll::Ready(Err(io::Error::new(io::ErrorKind::ConnectionReset, "sim: stream reset")));
        }
        let limit = self.err_at.unwrap_or(usize::MAX).min(self.eof_at);
        let c = self.next_chunk();
        let n = c.min(limit.saturating_sub(self.pos)).min(buf.remaining());
        let p = self.pos;
        buf.put_slice(&self.data[p..p + n]);
        self.pos += n;
        Poll::Ready(Ok(()))
    }
}

impl AsyncWrite for SimStream {
    fn poll_write(mut self: Pin<&mut Self>, cx: &mut Context<'_>, buf: &[u8]) -> Poll<io::Result<usize>> {
        self.polls += 1;
        if self.pending_every > 0 && self.polls % self.pending_every as u64 == 0 {
            cx.waker().wake_by_ref();
            return Poll::Pending;
        }
        if let Some(e) = self.write_err_at {
            if self.written.len() >= e {
                return Poll::Ready(Err(io::Error::new(io::ErrorKind::BrokenPipe, "sim: write failed")));
            }
        }
        let c = self.next_chunk();
        let mut n = c.min(buf.len());
        if let Some(e) = self.write_err_at {
            n = n.min(e - self.written.len()).max(if buf.is_empty() { 0 } else { 1 }).min(buf.len());
        }
        self.written.extend_from_slice(&buf[..n]);
        Poll::Ready(Ok(n))
    }
    fn poll_flush(self: Pin<&mut Self>, _cx: &mut Context<'_>) -> Poll<io::Result<()>> {
        Poll::Ready(Ok(()))
    }
    fn poll_shutdown(self: Pin<&mut Self>, _cx: &mut Context<'_>) -> Poll<io::Result<()>> {
        Poll::Ready(Ok(()))
    }
}

// ---------------------------------------------------------------------------------------------

#[derive(Clone, Debug, PartialEq)]
struct Msg {
    is_request: bool,
    route: String,
    status: u16,
    headers: Vec<(String, String)>,
    body: Vec<u8>,
}

const STATUSES: [StatusCode; 8] = [
    StatusCode::Success,
    StatusCode::BadRequest,
    StatusCode::NotFound,
    StatusCode::RequestTimeout,
    StatusCode::TooManyRequests,
    StatusCode::InternalServerError,
    StatusCode::VersionNotSupported,
    StatusCode::Unknown,
];

fn rand_str(r: &mut impl Rng, max: usize) -> String {
    const A: &[&str] = &["a", "Z", "/", "-", "0", " ", "é", "λ", "中", "🦀", "\u{0}", "\n", ":", "%", "\u{7f}"];
    (0..r.gen_range(0..=max)).map(|_| A[r.gen_range(0..A.len())]).collect()
}

fn gen_msg(r: &mut impl Rng) -> Msg {
    let is_request = r.gen_bool(0.5);
    let mut headers = Vec::new();
    for i in 0..r.gen_range(0..=6) {
        let k = if r.gen_bool(0.2) { String::new() } else { format!("{}{i}", rand_str(r, 8)) };
        if !headers.iter().any(|(kk, _): &(String, String)| *kk == k) {
            headers.push((k, rand_str(r, 40)));
        }
    }
    headers.sort();
    // (sizes around and beyond the 8 KiB at which the framed writer stops buffering included)
    let body_len = match r.gen_range(0..20) {
        0..=5 => 0,
        6..=12 => r.gen_range(1..200),
        13..=16 => r.gen_range(200..2000),
        17 => r.gen_range(2000..6000),
        18 => r.gen_range(8_100..8_300),
        _ => r.gen_range(6_000..70_000),
    };
    let mut body = vec![0u8; body_len];
    r.fill(&mut body[..]);
    Msg {
        is_request,
        route: match r.gen_range(0..4) {
            0 => "/".into(),
            1 => String::new(),
            2 => format!("/{}", rand_str(r, 30)),
            _ => rand_str(r, 200),
        },
        status: STATUSES[r.gen_range(0..8)].to_u16(),
        headers,
        body,
    }
}

#[derive(Clone)]
struct Marker;

async fn encode_real(m: &Msg, cfg: &anemo::Config, chunk: Vec<usize>, pending_every: u32, err_at: Option<usize>) -> (Result<(), String>, Vec<u8>) {
    let mut s = SimStream::writer(chunk, pending_every);
    s.write_err_at = err_at;
    let mut fw = FramedWrite::new(s, codec::network_message_frame_codec(cfg));
    let res = if m.is_request {
        let mut req = Request::new(Bytes::from(m.body.clone())).with_route(m.route.clone()).with_extension(Marker);
        for (k, v) in &m.headers {
            req = req.with_header(k.clone(), v.clone());
        }
        codec::write_request(&mut fw, req).await
    } else {
        let mut resp = Response::new(Bytes::from(m.body.clone())).with_status(StatusCode::new(m.status).unwrap()).with_extension(Marker);
        for (k, v) in &m.headers {
            resp = resp.with_header(k.clone(), v.clone());
        }
        codec::write_response(&mut fw, resp).await
    };
    let written = fw.into_inner().written;
    (res.map_err(|e| format!("{e:#}")), written)
}

/// (decoded message, extensions empty?, polls)
async fn decode_real(is_request: bool, cfg: &anemo::Config, s: SimStream) -> (Result<(Msg, bool), String>, u64) {
    let mut fr = FramedRead::new(s, codec::network_message_frame_codec(cfg));
    let res = if is_request {
        codec::read_request(&mut fr).await.map(|r| {
            let mut headers: Vec<(String, String)> = r.headers().iter().map(|(k, v)| (k.clone(), v.clone())).collect();
            headers.sort();
            let clean = r.extensions().is_empty() && r.version() == anemo::types::Version::V1;
            (Msg { is_request: true, route: r.route().to_string(), status: 0, headers, body: r.body().to_vec() }, clean)
        })
    } else {
        codec::read_response(&mut fr).await.map(|r| {
            let mut headers: Vec<(String, String)> = r.headers().iter().map(|(k, v)| (k.clone(), v.clone())).collect();
            headers.sort();
            let clean = r.extensions().is_empty() && r.version() == anemo::types::Version::V1;
            (Msg { is_request: false, route: String::new(), status: r.status().to_u16(), headers, body: r.body().to_vec() }, clean)
        })
    };
    let polls = fr.get_ref().polls;
    (res.map_err(|e| format!("{e:#}")), polls)
}

fn reference_decode(is_request: bool, bytes: &[u8], max_frame: usize) -> Result<Msg, String> {
    // frames above the configured maximum are refused
    if bytes.len() >= 12 {
        let n = u32::from_be_bytes(bytes[8..12].try_into().unwrap()) as usize;
        if n > max_frame {
            return Err("frame too big".into());
        }
        if bytes.len() >= 16 + n {
            let b = u32::from_be_bytes(bytes[12 + n..16 + n].try_into().unwrap()) as usize;
            if b > max_frame {
                return Err("frame too big".into());
            }
        }
    }
    let d = if is_request { wire::decode_request(bytes)? } else { wire::decode_response(bytes)? };
    // bincode map semantics: a later duplicate key replaces the earlier one
    let mut headers: Vec<(String, String)> = Vec::new();
    for (k, v) in d.headers_in_order {
        if let Some(e) = headers.iter_mut().find(|(kk, _)| *kk == k) {
            e.1 = v;
        } else {
            headers.push((k, v));
        }
    }
    headers.sort();
    Ok(Msg { is_request, route: d.route.unwrap_or_default(), status: d.status.unwrap_or(0), headers, body: d.body })
}

fn norm(m: &Msg) -> Msg {
    let mut m = m.clone();
    if m.is_request {
        m.status = 0;
    } else {
        m.route = String::new();
    }
    m
}

fn chunks(r: &mut impl Rng) -> Vec<usize> {
    match r.gen_range(0..4) {
        0 => vec![1],
        1 => vec![usize::MAX],
        2 => (0..5).map(|_| r.gen_range(1..9)).collect(),
        _ => (0..4).map(|_| r.gen_range(1..700)).collect(),
    }
}

fn run(input: RunInput) -> ScenFuture {
    Box::pin(async move {
        let w = World::new(&input, LinkCfg::clean(100, 100));
        let mut r = w.rng("wl:c07");
        let m = gen_msg(&mut r);
        let mut cfg = anemo::Config::default();
        let max_frame = if r.gen_bool(0.3) {
            // (this scenario studies well-formed messages within the limits: C15 has the limits)
            let l = r.gen_range(6_500..20_000usize).max(m.body.len() + r.gen_range(0..100));
            cfg.max_frame_size = Some(l);
            l
        } else {
            8 << 20
        };
        let kind = if m.is_request { "request" } else { "response" };
        // ---- encode: exact layout ----
        let (res, bytes) = encode_real(&m, &cfg, chunks(&mut r), r.gen_range(0..4), None).await;
        if let Err(e) = res {
            w.violate("encoder-failed", kind, format!("writing a valid {kind} failed: {e}"));
            return w.finish();
        }
        let reference = if m.is_request { wire::encode_request(1, &m.route, &m.headers, &m.body) } else { wire::encode_response(1, m.status, &m.headers, &m.body) };
        if m.headers.len() <= 1 {
            w.check(bytes == reference, "encoding-differs-from-layout", kind, || format!("encoder produced {} bytes, the reference layout {} bytes; first difference at {:?}", bytes.len(), reference.len(), bytes.iter().zip(&reference).position(|(a, b)| a != b)));
        } else {
            // header-map entry order is unspecified: compare through the reference decoder
            w.check(bytes.len() == reference.len(), "encoding-differs-from-layout", kind, || format!("encoder produced {} bytes, reference {}", bytes.len(), reference.len()));
            match reference_decode(m.is_request, &bytes, max_frame) {
                Ok(d) => {
                    w.check(d == norm(&m), "encoding-differs-from-layout", kind, || "reference decoder reads something else from the encoder's bytes".into());
                }
                Err(e) => w.violate("encoding-differs-from-layout", kind, format!("reference decoder rejects the encoder's bytes: {e}")),
            }
        }
        // From here on work with the reference encoding (sorted header entries): the real
        // encoder's entry order comes from a randomly keyed HashMap and differs from run to run,
        // and nothing below may depend on it (one seed = one execution).
        let real_bytes = bytes;
        let (res, _) = decode_real(m.is_request, &cfg, SimStream::reader(real_bytes.clone(), vec![usize::MAX], 0)).await;
        w.check(res.as_ref().map(|(d, _)| d == &norm(&m)).unwrap_or(false), "round-trip-mismatch", kind, || format!("the real reader does not reproduce the message from the real writer's bytes: {:?}", res.as_ref().err()));
        let bytes = reference.clone();
        // ---- round trip through the real reader, under short reads and Pending ----
        let (res, polls) = decode_real(m.is_request, &cfg, SimStream::reader(bytes.clone(), chunks(&mut r), r.gen_range(0..4))).await;
        match res {
            Ok((d, clean)) => {
                w.check(d == norm(&m), "round-trip-mismatch", kind, || format!("decoded {kind} differs from the original (route {:?}/{:?}, {} vs {} headers, body {} vs {} bytes)", d.route, m.route, d.headers.len(), m.headers.len(), d.body.len(), m.body.len()));
                w.check(clean, "extensions-travelled", kind, || "decoded message carries extensions or a wrong version".into());
            }
            Err(e) => w.violate("round-trip-mismatch", kind, format!("the real reader rejects the real writer's output: {e}")),
        }
        w.check(polls <= 3 * bytes.len() as u64 + 32, "decoder-polls-unbounded", kind, || format!("{polls} polls for {} bytes", bytes.len()));
        // ---- every strict prefix (EOF fault at each offset) ----
        let offsets: Vec<usize> = if bytes.len() <= 1200 { (0..bytes.len()).collect() } else { (0..160).chain(bytes.len() - 48..bytes.len()).chain((0..60).map(|_| r.gen_range(160..bytes.len() - 48))).collect() };
        let ch = chunks(&mut r);
        for &cut in &offsets {
            let mut s = SimStream::reader(bytes.clone(), ch.clone(), 0);
            s.eof_at = cut;
            let (res, polls) = decode_real(m.is_request, &cfg, s).await;
            if res.is_ok() {
                w.violate("truncated-message-accepted", kind, format!("a {kind} truncated to {cut} of {} bytes was decoded successfully", bytes.len()));
                break;
            }
            if polls > 3 * cut as u64 + 32 {
                w.violate("decoder-polls-unbounded", kind, format!("{polls} polls for a prefix of {cut} bytes"));
                break;
            }
        }
        // ---- I/O error at each read offset ----
        for &at in offsets.iter().step_by(if bytes.len() > 400 { 7 } else { 1 }) {
            let mut s = SimStream::reader(bytes.clone(), ch.clone(), 0);
            s.err_at = Some(at);
            let (res, _) = decode_real(m.is_request, &cfg, s).await;
            if res.is_ok() {
                w.violate("read-error-swallowed", kind, format!("a read error at offset {at} of {} was turned into a successful decode", bytes.len()));
                break;
            }
        }
        // ---- write error at an offset: reported, never a panic ----
        let at = r.gen_range(0..bytes.len());
        let (res, written) = encode_real(&m, &cfg, chunks(&mut r), 0, Some(at)).await;
        w.check(res.is_err() && written.len() <= at.max(1), "write-error-swallowed", kind, || format!("write error at {at}: result {res:?}, {} bytes written", written.len()));
        // ---- every preamble byte altered ----
        for i in 0..8 {
            for delta in [1u8, 0x20, 0x80, 0xFF] {
                let mut b = bytes.clone();
                b[i] ^= delta;
                let (res, _) = decode_real(m.is_request, &cfg, SimStream::reader(b, vec![usize::MAX], 0)).await;
                if res.is_ok() {
                    w.violate("foreign-preamble-accepted", format!("byte {i}"), format!("preamble byte {i} xor {delta:#x} accepted"));
                }
            }
        }
        // ---- differential: mutations and random bytes against the reference decoder ----
        let mut verdicts = (0u32, 0u32);
        for k in 0..50 {
            let b = if k < 40 {
                let mut b = bytes.clone();
                let i = if r.gen_bool(0.6) { r.gen_range(0..b.len().min(64)) } else { r.gen_range(0..b.len()) };
                match r.gen_range(0..3) {
                    0 => b[i] ^= 1 << r.gen_range(0..8),
                    1 => b[i] = r.gen(),
                    _ => {
                        b.truncate(i.max(1));
                        b.extend((0..r.gen_range(0..20)).map(|_| r.gen::<u8>()));
                    }
                }
                b
            } else {
                let mut b = if r.gen_bool(0.5) { wire::preamble(1).to_vec() } else { Vec::new() };
                b.extend((0..r.gen_range(0..120)).map(|_| r.gen::<u8>()));
                b
            };
            let (real, _) = decode_real(m.is_request, &cfg, SimStream::reader(b.clone(), chunks(&mut r), 0)).await;
            let refd = reference_decode(m.is_request, &b, max_frame);
            match (&real, &refd) {
                (Ok((d, _)), Ok(e)) => {
                    verdicts.0 += 1;
                    if d != e {
                        w.violate("decoder-disagrees-with-layout", kind, format!("bytes {:02x?}... decode to different messages", &b[..b.len().min(24)]));
                    }
                }
                (Err(_), Err(_)) => verdicts.1 += 1,
                (Ok(_), Err(e)) => w.violate("invalid-bytes-accepted", kind, format!("the reference decoder rejects ({e}) what the real decoder accepts: {:02x?}...", &b[..b.len().min(32)])),
                (Err(e), Ok(_)) => w.violate("valid-bytes-rejected", kind, format!("the real decoder rejects ({e}) a message that follows the layout: {:02x?}...", &b[..b.len().min(32)])),
            }
            if w.violated() {
                break;
            }
        }
        w.event(format!("{kind} h{} b{} ok{} err{}", m.headers.len(), match m.body.len() { 0 => 0, 1..=199 => 1, 200..=1999 => 2, _ => 3 }, verdicts.0, verdicts.1));
        w.mark_overlap();
        w.probe_n("prefixes-enumerated", offsets.len() as u64);
        w.sample("message", json!({"kind": kind, "route_len": m.route.len(), "headers": m.headers.len(), "body_len": m.body.len(), "encoded_len": bytes.len(), "max_frame": max_frame, "mutations_both_ok": verdicts.0, "mutations_both_err": verdicts.1}));
        w.finish()
    })
}

fn run_closed_sets(input: RunInput) -> ScenFuture {
    Box::pin(async move {
        let w = World::new(&input, LinkCfg::clean(100, 100));
        let cfg = anemo::Config::default();
        // golden vectors: pin the layout against symmetric encoder+decoder changes
        let golden_req: Vec<u8> = vec![
            b'a', b'n', b'e', b'm', b'o', 0, 1, 0, // preamble, version 1 big-endian, reserved 0
            0, 0, 0, 36, // header frame length, big-endian
            2, 0, 0, 0, 0, 0, 0, 0, b'/', b'a', // route "/a" (bincode string: u64 LE length)
            1, 0, 0, 0, 0, 0, 0, 0, // one header
            1, 0, 0, 0, 0, 0, 0, 0, b'k', 1, 0, 0, 0, 0, 0, 0, 0, b'v', // "k" => "v"
            0, 0, 0, 2, b'h', b'i', // body frame
        ];
        let golden_resp: Vec<u8> = vec![
            b'a', b'n', b'e', b'm', b'o', 0, 1, 0, 0, 0, 0, 10, // preamble + header frame length
            0x94, 0x01, // status 404, u16 little-endian
            0, 0, 0, 0, 0, 0, 0, 0, // no headers
            0, 0, 0, 0, // empty body frame
        ];
        let req = Msg { is_request: true, route: "/a".into(), status: 0, headers: vec![("k".into(), "v".into())], body: b"hi".to_vec() };
        let resp = Msg { is_request: false, route: String::new(), status: 404, headers: vec![], body: vec![] };
        for (m, golden, name) in [(&req, &golden_req, "request"), (&resp, &golden_resp, "response")] {
            let (res, bytes) = encode_real(m, &cfg, vec![usize::MAX], 0, None).await;
            w.check(res.is_ok() && &bytes == golden, "golden-vector-encode", name, || format!("encoder output {bytes:02x?} differs from the golden {name} vector"));
            let (res, _) = decode_real(m.is_request, &cfg, SimStream::reader(golden.clone(), vec![3], 2)).await;
            w.check(res.as_ref().map(|(d, _)| d == &norm(m)).unwrap_or(false), "golden-vector-decode", name, || format!("decoding the golden {name} vector gives {res:?}"));
        }
        // version frame codec on its own
        let mut buf = SimStream::writer(vec![1], 0);
        let _ = codec::write_version_frame(&mut buf, anemo::types::Version::V1).await;
        w.check(buf.written == wire::preamble(1), "golden-vector-encode", "preamble", || format!("{:?}", buf.written));
        // every version value
        let mut accepted = 0u32;
        for v in 0..=u16::MAX {
            let mut s = SimStream::reader(wire::preamble(v).to_vec(), vec![usize::MAX], 0);
            let ok = codec::read_version_frame(&mut s).await.is_ok();
            if ok {
                accepted += 1;
            }
            if ok != (v == 1) {
                w.violate(if ok { "unknown-version-accepted" } else { "known-version-rejected" }, format!("version {v}"), format!("version {v}: accepted = {ok}"));
                break;
            }
        }
        // every reserved-byte value
        for b in 1..=255u8 {
            let mut p = wire::preamble(1);
            p[7] = b;
            let mut s = SimStream::reader(p.to_vec(), vec![usize::MAX], 0);
            if codec::read_version_frame(&mut s).await.is_ok() {
                w.violate("reserved-byte-ignored", format!("reserved {b}"), format!("preamble with reserved byte {b} accepted"));
                break;
            }
        }
        // every status code
        let mut ok_status = 0u32;
        for code in 0..=u16::MAX {
            let bytes = wire::encode_response(1, code, &[], b"x");
            let (res, _) = decode_real(false, &cfg, SimStream::reader(bytes, vec![usize::MAX], 0)).await;
            let known = wire::STATUS_CODES.contains(&code);
            if res.is_ok() {
                ok_status += 1;
            }
            if res.is_ok() != known {
                w.violate(if known { "known-status-rejected" } else { "unknown-status-accepted" }, format!("status {code}"), format!("status {code}: accepted = {}", res.is_ok()));
                break;
            }
            if let Ok((d, _)) = res {
                if d.status != code {
                    w.violate("status-decoded-wrong", format!("status {code}"), format!("status {code} decoded as {}", d.status));
                    break;
                }
            }
        }
        w.event(format!("versions-accepted={accepted} statuses-accepted={ok_status}"));
        w.event(format!("salt {}", w.seed % 4));
        w.mark_overlap();
        w.probe_n("values-enumerated", 65536 * 2 + 255);
        w.sample("closed-sets", json!({"versions_accepted": accepted, "statuses_accepted": ok_status, "exhaustive": true}));
        w.finish()
    })
}
