//! C14 — networks with different names never connect.

use super::common::*;
use crate::adversary::*;
use crate::fabric::LinkCfg;
use crate::runner::{ScenFuture, Scenario};
use crate::world::*;
use rand::Rng;
use serde_json::json;

pub static NAMES: Scenario = Scenario {
    id: "C14",
    name: "c14-network-names",
    run,
    quick_runs: 12_000,
    thorough_runs: 200_000,
    rule: "one run = two real Networks with PRNG (primary, optional alternate) network names from a small alphabet plus PRNG DNS labels, dialing each other in both directions, an adversarial dialer choosing SNI and certificate name independently against each of them, and an adversarial listener recording the SNI honest dialers offer; fault-free and lossy configurations; distinct = distinct order signature (name relation, direction, outcome); non-trivial = names differ somewhere or a fault fired",
    real: super::REAL_NET,
    stubbed: super::STUB_NET,
};

fn pick_name(r: &mut impl Rng) -> String {
    // ("template-net" is also what a builder whose name is set twice was called at first)
    const BASE: [&str; 5] = ["net-a", "net-b", "net-c", "a.example", "template-net"];
    if r.gen_bool(0.75) {
        BASE[r.gen_range(0..BASE.len())].to_string()
    } else {
        let n = r.gen_range(1..12);
        let s: String = (0..n).map(|_| (b'a' + r.gen_range(0..26u8)) as char).collect();
        if r.gen_bool(0.3) { format!("{s}.net-a") } else { s }
    }
}

fn run(input: RunInput) -> ScenFuture {
    Box::pin(async move {
        let w = World::new(&input, LinkCfg::clean(200, 6_000));
        let lossy = w.flag("lossy", 0.3);
        let mut r = w.rng("cfg:names");
        let mut names = Vec::new();
        for _ in 0..2 {
            let p = pick_name(&mut r);
            let alt = r.gen_bool(0.5).then(|| pick_name(&mut r));
            names.push((p, alt));
        }
        let mut cfg = base_config(6_000, Some(1_500));
        cfg.connect_timeout_ms = Some(1_500);
        // (frequent connectivity checks: idle until a High entry appears in the phase at the end)
        cfg.connectivity_check_interval_ms = Some(200);
        cfg.connection_backoff_ms = Some(100);
        cfg.max_connection_backoff_ms = Some(200);
        let mut nodes = Vec::new();
        let mut subs = Vec::new();
        for (i, (p, alt)) in names.iter().enumerate() {
            let mut spec = w.spec_exact(i as u8 + 1, cfg.clone());
            spec.name = p.clone();
            spec.alt_name = alt.clone();
            // (the builder may have carried another name before it got this one: that name is gone)
            spec.name_set_twice = r.gen_bool(0.3);
            let n = w.start_node(spec, Svc::echo(&w)).unwrap();
            subs.push(Subscription::new(&n.net).unwrap());
            nodes.push(n);
        }
        let mut link = LinkCfg::clean(200, 6_000);
        if lossy {
            link.drop = w.param("drop_pct", 1, 15) as f64 / 100.0;
            link.dup = 0.03;
        }
        w.fabric.set_default_link(link);
        let accepts = |listener: usize, name: &str| names[listener].0 == name || names[listener].1.as_deref() == Some(name);
        let mut samples = Vec::new();
        // honest dials, both directions
        let order = if w.flag("b_dials_first", 0.5) { [(1usize, 0usize), (0, 1)] } else { [(0, 1), (1, 0)] };
        for (d, l) in order {
            let model = accepts(l, &names[d].0);
            let res = if r.gen_bool(0.5) {
                nodes[d].net.connect(nodes[l].addr).await
            } else {
                nodes[d].net.connect_with_peer_id(nodes[l].addr, nodes[l].peer_id).await
            };
            let key = format!("dialer=({},{:?}) listener=({},{:?})", names[d].0, names[d].1, names[l].0, names[l].1);
            w.event(format!("honest {}:{}", if model { "compatible" } else { "foreign" }, if res.is_ok() { "ok" } else { "err" }));
            samples.push(json!({"dialer": names[d], "listener": names[l], "model_connects": model, "connected": res.is_ok()}));
            if res.is_ok() && !model {
                w.violate("different-networks-connected", key.clone(), format!("dialer primary {:?} is not accepted by listener ({:?},{:?}) but connect succeeded", names[d].0, names[l].0, names[l].1));
            }
            if res.is_err() && model && !lossy {
                w.violate("same-network-refused", key.clone(), format!("dialer primary {:?} is accepted by the listener but connect failed: {:#}", names[d].0, res.as_ref().unwrap_err()));
            }
            sleep_ms(100).await;
            if !model {
                for (i, s) in subs.iter_mut().enumerate() {
                    s.drain(w.now_ns());
                    // (events from the other, compatible direction are legitimate)
                    let other_dir_ok = accepts(d, &names[l].0);
                    if !other_dir_ok && !s.history.is_empty() {
                        w.violate("different-networks-connected", key.clone(), format!("node {i} announced {:?} although neither direction is compatible", s.history.iter().map(|e| &e.ev).collect::<Vec<_>>()));
                    }
                }
            }
            if res.is_ok() {
                let _ = nodes[d].net.disconnect(nodes[l].peer_id);
                sleep_ms(200).await;
            }
        }
        // adversarial dialer: SNI and certificate name chosen independently
        let k_adv = w.key_for(9);
        // (whatever the listeners' known-peer tables say about the adversary's key: being a known,
        // even a preferred peer does not make a certificate for another network acceptable)
        if r.gen_bool(0.4) {
            for n in &nodes {
                let affinity = if r.gen_bool(0.5) { anemo::types::PeerAffinity::High } else { anemo::types::PeerAffinity::Allowed };
                n.net.known_peers().insert(anemo::types::PeerInfo { peer_id: public_key(&k_adv), affinity, address: vec![] });
            }
            w.probe("adversary-is-a-known-peer");
        }
        let n_adv = w.param("adv_attempts", 0, 4);
        let mut retired = Vec::new();
        for k in 0..n_adv {
            let l = r.gen_range(0..2usize);
            let pool: Vec<String> = vec![names[l].0.clone(), names[l].1.clone().unwrap_or_else(|| "zz-none".into()), names[1 - l].0.clone(), pick_name(&mut r), "unknown-net".into(), "template-net".into()];
            // (one attempt in six sends no server name at all)
            let no_sni = r.gen_range(0..6) == 0;
            let sni = if no_sni { "<none>".to_string() } else { pool[r.gen_range(0..pool.len())].clone() };
            // the certificate: for one name, for two names (valid for each of them), for no name at
            // all, or only for something that is not a DNS name (valid for no network name)
            let (cert_names, non_dns): (Vec<String>, Option<u8>) = match r.gen_range(0..10) {
                0 => (vec![], None),
                1 => (vec![], Some(r.gen_range(0..2))),
                2 | 3 => (vec![pool[r.gen_range(0..pool.len())].clone(), pool[r.gen_range(0..pool.len())].clone()], r.gen_bool(0.3).then(|| r.gen_range(0..2))),
                _ => (vec![pool[r.gen_range(0..pool.len())].clone()], None),
            };
            let cert_name = format!("{cert_names:?}{}", match non_dns { Some(0) => "+ip", Some(_) => "+uri", None => "" });
            let cert_ok = cert_names.iter().any(|n| accepts(l, n));
            if cert_names.len() != 1 || non_dns.is_some() {
                w.probe("adversarial-certificate-with-unusual-name-set");
            }
            // (one attempt in five is made with the listener's *own* key - the same operator key on
            // two networks: "whatever their keys")
            let k_this = if r.gen_bool(0.2) { w.probe("adversary-holds-the-listener's-key"); nodes[l].key } else { k_adv };
            let adv = adv_endpoint(&w, AdvSpec {
                idx: 9, port: 7200 + k as u16, chain: vec![gen_cert_shape(&k_this, &cert_names, non_dns)], sign_key: k_this, present_client_cert: true,
                idle_ms: 6_000, keep_alive_ms: None, max_bidi: 10,
            });
            let res = if no_sni { adv.dial_no_sni(nodes[l].addr, 1_200).await } else { adv.dial(nodes[l].addr, &sni, 1_200).await };
            let model = !no_sni && accepts(l, &sni) && cert_ok;
            let key = format!("sni_accepted={} cert_accepted={}{}", accepts(l, &sni), cert_ok, if cert_names.is_empty() { " cert_without_dns_name" } else { "" });
            w.event(format!("adv {key}:{}", if res.is_ok() { "admitted" } else { "refused" }));
            samples.push(json!({"listener": names[l], "sni": sni, "cert_name": cert_name, "model_admits": model, "admitted": res.is_ok()}));
            if res.is_ok() && !model {
                w.violate("adversarial-name-combination-admitted", key.clone(), format!("listener ({:?},{:?}) admitted a dialer claiming SNI {sni:?} with a certificate for {cert_name:?}", names[l].0, names[l].1));
            }
            if res.is_err() && model && !lossy {
                w.violate("same-network-refused", key.clone(), format!("listener ({:?},{:?}) refused SNI {sni:?} / certificate {cert_name:?}: {:?}", names[l].0, names[l].1, res.as_ref().err()));
            }
            if let Ok(c) = res {
                c.close(0u32.into(), b"");
            }
            retired.push(adv);
            sleep_ms(50).await;
        }
        // an adversary that has looked at the listener first: it dials once as a member of the
        // listener's network, reads the listener's certificate, and comes back with a certificate
        // issued for another network that *also* carries every other name the listener's own
        // certificate advertises (anything in there is public). Which names a listener accepts
        // is a matter of its configuration, not of what its certificate happens to contain.
        for l in 0..2usize {
            if w.violated() {
                break;
            }
            let scout = adv_endpoint(&w, AdvSpec {
                idx: 9, port: 7400 + l as u16, chain: vec![gen_cert(&k_adv, &names[l].0)], sign_key: k_adv, present_client_cert: true,
                idle_ms: 6_000, keep_alive_ms: None, max_bidi: 10,
            });
            let mut advertised: Vec<String> = Vec::new();
            if let Ok(c) = scout.dial(nodes[l].addr, &names[l].0, 1_200).await {
                if let Some(certs) = c.peer_identity().and_then(|i| i.downcast::<Vec<rustls::pki_types::CertificateDer<'static>>>().ok()) {
                    for cert in certs.iter() {
                        if let Ok((_, x)) = x509_parser::parse_x509_certificate(cert.as_ref()) {
                            if let Ok(Some(san)) = x.subject_alternative_name() {
                                for n in &san.value.general_names {
                                    if let x509_parser::extensions::GeneralName::DNSName(d) = n {
                                        advertised.push(d.to_string());
                                    }
                                }
                            }
                        }
                    }
                }
                c.close(0u32.into(), b"");
            }
            retired.push(scout);
            sleep_ms(50).await;
            if !advertised.is_empty() {
                w.probe("listener-certificate-read-by-the-adversary");
            }
            let extra: Vec<String> = advertised.iter().filter(|n| !accepts(l, n)).cloned().collect();
            if !extra.is_empty() {
                w.probe("listener-certificate-advertises-names-beyond-its-network-names");
            }
            let mut cert_names = vec!["other-net".to_string()];
            cert_names.extend(extra.iter().cloned());
            let adv = adv_endpoint(&w, AdvSpec {
                idx: 9, port: 7410 + l as u16, chain: vec![gen_cert_shape(&k_adv, &cert_names, None)], sign_key: k_adv, present_client_cert: true,
                idle_ms: 6_000, keep_alive_ms: None, max_bidi: 10,
            });
            let res = adv.dial(nodes[l].addr, &names[l].0, 1_200).await;
            w.event(format!("adv informed:{}", if res.is_ok() { "admitted" } else { "refused" }));
            if res.is_ok() && !accepts(l, "other-net") {
                w.violate("adversarial-name-combination-admitted", "sni_accepted=true cert_accepted=false names-copied-from-the-listener's-certificate", format!("listener ({:?},{:?}) admitted a dialer claiming its primary name with a certificate for {cert_names:?} (\"other-net\" plus the names its own certificate advertises beyond its network names)", names[l].0, names[l].1));
            }
            if let Ok(c) = res {
                c.close(0u32.into(), b"");
            }
            retired.push(adv);
            sleep_ms(50).await;
        }
        let mut retired_l = Vec::new();
        // adversarial listener: which name does an honest dialer offer?
        let lst = adv_endpoint(&w, AdvSpec {
            idx: 8, port: 7000, chain: vec![gen_cert(&k_adv, &names[0].0)], sign_key: k_adv, present_client_cert: true,
            idle_ms: 6_000, keep_alive_ms: None, max_bidi: 10,
        });
        {
            let ep = lst.ep.clone();
            tokio::spawn(async move {
                while let Some(inc) = ep.accept().await {
                    tokio::spawn(async move {
                        let _ = inc.await;
                    });
                }
            });
        }
        for d in 0..2 {
            let _ = nodes[d].net.connect(lst.addr).await;
        }
        let seen = lst.sni_seen.lock().unwrap().clone();
        for (i, s) in seen.iter().enumerate() {
            let ok = s.as_deref() == Some(names[0].0.as_str()) || s.as_deref() == Some(names[1].0.as_str());
            w.check(ok, "dialer-offered-non-primary-name", format!("{s:?}"), || format!("SNI #{i} offered by an honest dialer is {s:?}; primaries are {:?} and {:?}", names[0].0, names[1].0));
        }
        if !lossy {
            w.check(seen.len() >= 2, "dialer-sent-no-sni", "listener", || format!("adversarial listener saw {} hellos", seen.len()));
        }
        // adversarial listeners that answer with a certificate for a name of their choosing and play
        // the acknowledgement: an honest dialer accepts only a certificate for the name it dialed,
        // its primary name
        for d in 0..2usize {
            let pool: Vec<String> = vec![names[d].0.clone(), names[d].1.clone().unwrap_or_else(|| "zz-none".into()), names[1 - d].0.clone(), pick_name(&mut r)];
            let (cert_names, non_dns): (Vec<String>, Option<u8>) = match r.gen_range(0..10) {
                0 => (vec![], None),
                1 => (vec![], Some(r.gen_range(0..2))),
                2 | 3 => (vec![pool[r.gen_range(0..pool.len())].clone(), pool[r.gen_range(0..pool.len())].clone()], None),
                _ => (vec![pool[r.gen_range(0..pool.len())].clone()], None),
            };
            let cert_name = format!("{cert_names:?}{}", match non_dns { Some(0) => "+ip", Some(_) => "+uri", None => "" });
            let l2 = adv_endpoint(&w, AdvSpec {
                idx: 8, port: 7300 + d as u16, chain: vec![gen_cert_shape(&k_adv, &cert_names, non_dns)], sign_key: k_adv, present_client_cert: true,
                idle_ms: 6_000, keep_alive_ms: None, max_bidi: 10,
            });
            let l2 = std::sync::Arc::new(l2);
            let srv = {
                let l2 = l2.clone();
                tokio::spawn(async move {
                    let mut keep = Vec::new();
                    while let Ok(c) = l2.accept_and_ack().await {
                        keep.push(c);
                    }
                })
            };
            // (plainly, or naming the identity that really lives there: the name check is the same)
            let pinned = r.gen_bool(0.5);
            let res = if pinned {
                tokio::time::timeout(std::time::Duration::from_secs(5), nodes[d].net.connect_with_peer_id(l2.addr, public_key(&k_adv))).await
            } else {
                tokio::time::timeout(std::time::Duration::from_secs(5), nodes[d].net.connect(l2.addr)).await
            };
            let connected = matches!(res, Ok(Ok(_)));
            let model = cert_names.iter().any(|n| *n == names[d].0);
            let key = format!("dialer=({},{:?}) cert_is_primary={} cert_is_alternate={}{}", names[d].0, names[d].1, model, cert_names.iter().any(|n| names[d].1.as_deref() == Some(n.as_str())), if pinned { " pinned" } else { "" });
            w.event(format!("adv-listener {}:{}", if model { "primary" } else { "other" }, if connected { "ok" } else { "err" }));
            if connected && !model {
                w.violate("dialer-accepted-certificate-for-a-name-it-did-not-dial", key.clone(), format!("dialer with primary {:?} (alternate {:?}) connected to a listener presenting a certificate for {cert_name:?}", names[d].0, names[d].1));
            }
            if !connected && model && !lossy {
                w.violate("same-network-refused", key, format!("dialer {:?} refused a listener with a certificate for its primary name: {:?}", names[d].0, res.as_ref().map(|r| r.as_ref().map_err(|e| format!("{e:#}")))));
            }
            if let Ok(Ok(p)) = &res {
                let _ = nodes[d].net.disconnect(*p);
            }
            srv.abort();
            retired_l.push(l2);
            sleep_ms(50).await;
        }
        // ---- background dials use the primary name like any other dial, attempt after attempt: a node
        //      with an alternate name gets the other node as a High peer behind a dead address and
        //      its real one (the first attempt fails, the second reaches it) ----
        if !w.violated() && !lossy && w.flag("background_dial_after_a_failed_attempt", 0.3) {
            for d in 0..2usize {
                let l = 1 - d;
                if names[d].1.is_none() || nodes[d].net.peers().contains(&nodes[l].peer_id) {
                    continue;
                }
                let model = accepts(l, &names[d].0);
                nodes[d].net.known_peers().insert(anemo::types::PeerInfo { peer_id: nodes[l].peer_id, affinity: anemo::types::PeerAffinity::High, address: vec![addr(240 + d as u8).into(), nodes[l].addr.into()] });
                // first attempt: connect timeout at the dead address, back-off, second attempt, and once more
                sleep_ms(1_500 + 200 + 400 + 1_500 + 200 + 400 + 1_000).await;
                let connected = nodes[d].net.peers().contains(&nodes[l].peer_id) || nodes[l].net.peers().contains(&nodes[d].peer_id);
                nodes[d].net.known_peers().remove(&nodes[l].peer_id);
                w.event(format!("background {}:{}", if model { "compatible" } else { "foreign" }, if connected { "ok" } else { "err" }));
                if connected && !model {
                    w.violate("different-networks-connected", format!("background-dial dialer=({},{:?}) listener=({},{:?})", names[d].0, names[d].1, names[l].0, names[l].1), format!("a node with primary {:?} and alternate {:?} background-dialed a High peer of network ({:?},{:?}) behind a dead and a live address and ended up connected to it", names[d].0, names[d].1, names[l].0, names[l].1));
                }
                if connected {
                    let _ = nodes[d].net.disconnect(nodes[l].peer_id);
                    sleep_ms(100).await;
                }
                w.probe("background-dial-after-a-failed-attempt");
            }
        }
        // ---- a node that gives up its alternate name: restarted with the same key and primary name
        //      and no alternate, it accepts what its configuration says now, not what an earlier
        //      incarnation in this process accepted ----
        let mut restarted = Vec::new();
        if !w.violated() && names[0].1.is_some() && w.flag("restart_without_the_alternate_name", 0.3) {
            let old_alt = names[0].1.clone().unwrap();
            let (key0, addr0) = (nodes[0].key, nodes[0].addr);
            let n0 = nodes.remove(0);
            let _ = tokio::time::timeout(std::time::Duration::from_secs(30), n0.net.shutdown()).await;
            drop(n0);
            sleep_ms(50).await;
            if !w.fabric.is_bound(addr0) {
                let mut spec = w.spec_exact(1, cfg.clone());
                spec.key = key0;
                spec.name = names[0].0.clone();
                spec.alt_name = None;
                if let Ok(n) = w.start_node(spec, Svc::echo(&w)) {
                    let adv = adv_endpoint(&w, AdvSpec {
                        idx: 9, port: 7500, chain: vec![gen_cert(&k_adv, &old_alt)], sign_key: k_adv, present_client_cert: true,
                        idle_ms: 6_000, keep_alive_ms: None, max_bidi: 10,
                    });
                    let res = adv.dial(n.addr, &old_alt, 1_200).await;
                    if res.is_ok() && old_alt != names[0].0 {
                        w.violate("adversarial-name-combination-admitted", "sni_accepted=false cert_accepted=false after-restart-without-alternate", format!("a listener restarted with primary {:?} and no alternate admitted a dialer of network {old_alt:?}, the alternate name its earlier incarnation had", names[0].0));
                    }
                    if let Ok(c) = res {
                        c.close(0u32.into(), b"");
                    }
                    retired.push(adv);
                    w.probe("restart-without-the-alternate-name");
                    restarted.push(n);
                }
            }
        }
        if names[0].0 != names[1].0 || names[0].1.is_some() || names[1].1.is_some() { w.mark_overlap(); }
        w.sample("names", json!(samples));
        let out = w.finish();
        drop(retired);
        drop(retired_l);
        drop((nodes, lst, restarted));
        out
    })
}
