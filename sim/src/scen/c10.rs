//! C10 — inbound admission follows peer affinity and the connection limit.

use super::common::*;
use crate::fabric::LinkCfg;
use crate::model::{admit, Affinity};
use crate::runner::{ScenFuture, Scenario};
use crate::world::*;
use anemo::types::{PeerAffinity, PeerInfo};
use anemo::PeerId;
use rand::Rng;
use serde_json::json;
use std::collections::{BTreeMap, BTreeSet};

pub static ADMISSION: Scenario = Scenario {
    id: "C10",
    name: "c10-admission",
    run,
    quick_runs: 10_000,
    thorough_runs: 150_000,
    rule: "one run = a listener Network with connection limit in {none,0,1,2,3} and 3-6 dialer Networks; a sequential PRNG history of 4-25 steps (arrival, arrival of a dialer that vanishes right after TLS completes, repeated arrival of a connected peer, explicit outbound dial by the listener, background dial to a High-affinity peer, disconnect by either side, affinity change through KnownPeers at run time) checked step by step against the reference admission rule; fault-free configuration: connect is Ok iff the model admits and peers() equals the model after every step; lossy configuration: never over-admits; distinct = distinct order signature (step kind, affinity, count vs limit, outcome); non-trivial = a step where the limit or a Never/High/Allowed affinity decided",
    real: super::REAL_NET,
    stubbed: super::STUB_NET,
};

fn run(input: RunInput) -> ScenFuture {
    Box::pin(async move {
        let w = World::new(&input, LinkCfg::clean(200, 4_000));
        let lossy = w.flag("lossy", 0.25);
        let limit = match w.param("limit", -1, 3) {
            -1 => None,
            l => Some(l as usize),
        };
        let n_dialers = w.param("dialers", 3, 6) as usize;
        let n_steps = w.param("steps", 1, if w.tier == Tier::Quick { 25 } else { 70 }) as usize;
        let lat_max = w.param("lat_max_us", 300, 15_000) as u64;
        let tick_ms = 400u64;
        let mut cfg_l = base_config(20_000, Some(3_000));
        cfg_l.max_concurrent_connections = limit;
        cfg_l.connect_timeout_ms = Some(1_500);
        // a small cap on connections being established (another feature's setting: it bounds
        // background dialing, C13) must not influence admission
        let small_cap = w.flag("small_connecting_cap", 0.3).then(|| w.param("connecting_cap", 1, 3) as usize);
        cfg_l.max_concurrent_outstanding_connecting_connections = small_cap;
        cfg_l.connectivity_check_interval_ms = Some(tick_ms);
        cfg_l.connection_backoff_ms = Some(100);
        cfg_l.max_connection_backoff_ms = Some(400);
        let mut cfg_d = base_config(20_000, Some(3_000));
        cfg_d.connect_timeout_ms = Some(1_500);
        let l = w.start_node(w.spec_exact(1, cfg_l), Svc::echo(&w)).unwrap();
        let mut dialers = Vec::new();
        for i in 0..n_dialers {
            dialers.push(w.start_node(w.spec_exact(i as u8 + 2, cfg_d.clone()), Svc::echo(&w)).unwrap());
        }
        let mut link = LinkCfg::clean(200, lat_max);
        if lossy {
            link.drop = w.param("drop_pct", 1, 12) as f64 / 100.0;
            link.dup = 0.03;
        }
        w.fabric.set_default_link(link);
        let settle_ms = 4 * lat_max / 1000 + 30;
        let mut r = w.rng("wl:steps");
        let mut aff: BTreeMap<usize, Affinity> = BTreeMap::new();
        let mut model: BTreeSet<PeerId> = BTreeSet::new();
        let mut steps_log = Vec::new();
        let mut decided = 0u64;
        let aff_of = |aff: &BTreeMap<usize, Affinity>, k: usize| aff.get(&k).copied().unwrap_or(Affinity::Unknown);
        // dialers that vanish in the middle of being admitted: a raw QUIC client with a valid
        // identity of its own (unknown to the listener) completes TLS and closes at once, a few
        // milliseconds later, or sends nothing further and is closed after the settle period -
        // before, while or after the listener runs its admission check and acknowledgement. Such
        // an arrival never counts once it is gone: the model is unchanged by it.
        let ghosts = w.flag("vanishing_dialers", 0.5);
        let mut retired = Vec::new();
        // dials of the listener's own that hang (explicit ones to addresses where nobody answers, a
        // High-affinity peer behind such an address): connections being established are not
        // established connections, so an arrival meanwhile is judged exactly as without them
        let cpu_bound = w.flag("cpu_bound_handlers", 0.3);
        let mut r_cpu = w.rng("wl:cpu-bound");
        let hanging = w.flag("listener_dials_hang_meanwhile", 0.4);
        let stale_addresses = w.flag("high_entries_carry_a_stale_address", 0.3);
        let mut hanging_tasks = Vec::new();
        if hanging && r.gen_bool(0.5) {
            l.net.known_peers().insert(PeerInfo { peer_id: PeerId([0xEE; 32]), affinity: PeerAffinity::High, address: vec![addr(250).into()] });
            w.probe("high-peer-behind-a-dead-address");
        }
        for step in 0..n_steps {
            let k = r.gen_range(0..n_dialers);
            let d = &dialers[k];
            let choice = r.gen_range(0..100);
            let desc;
            if ghosts && r.gen_bool(0.2) {
                let mut key = [0u8; 32];
                r.fill(&mut key);
                let adv = crate::adversary::adv_endpoint(&w, crate::adversary::AdvSpec {
                    idx: 9, port: 7200 + step as u16, chain: vec![crate::adversary::gen_cert(&key, "sim")], sign_key: key,
                    present_client_cert: true, idle_ms: 20_000, keep_alive_ms: None, max_bidi: 10,
                });
                // mode 3: the dialer grants no unidirectional stream, so the listener's
                // acknowledgement cannot even be opened, and stays until the listener gives up
                // (its connect timeout)
                let mode = r.gen_range(0..4);
                let hold_us = match mode { 0 => 0, 1 => r.gen_range(0..3 * lat_max), 2 => settle_ms * 1000, _ => 1_500_000 + r.gen_range(0..300_000) };
                let mut client = adv.client.clone();
                if mode == 3 {
                    let mut t = quinn::TransportConfig::default();
                    t.max_concurrent_uni_streams(0u32.into());
                    t.max_idle_timeout(Some(quinn::VarInt::from_u32(20_000).into()));
                    client.transport_config(std::sync::Arc::new(t));
                }
                let conn = match adv.ep.connect_with(client, l.addr, "sim") {
                    Ok(c) => tokio::time::timeout(std::time::Duration::from_millis(1_500), c).await.ok().and_then(|r| r.ok()),
                    Err(_) => None,
                };
                let tls_ok = conn.is_some();
                if let Some(c) = conn {
                    tokio::time::sleep(std::time::Duration::from_micros(hold_us)).await;
                    c.close(0u32.into(), b"");
                }
                sleep_ms(settle_ms).await;
                retired.push(adv);
                w.probe("vanishing-dialer");
                desc = format!("vanishing dialer mode={mode} tls={tls_ok}");
            } else if choice < 45 {
                // arrival at the listener
                let a = aff_of(&aff, k);
                // strict configuration: the model's count; under loss connections may vanish at
                // any time, so the count the listener itself reports right before the dial and
                // right after it (without the newcomer) bound the count at the decision instant
                let count_before = if lossy { l.net.peers().len() } else { model.len() };
                let count = count_before;
                let permit = admit(a, limit, count);
                if hanging && r.gen_bool(0.5) {
                    for x in 0..r.gen_range(1..4u8) {
                        let net = l.net.clone();
                        hanging_tasks.push(tokio::spawn(async move { net.connect(addr(240 + x)).await.map(|_| ()) }));
                    }
                    sleep_ms(r.gen_range(0..40)).await;
                    w.probe("arrival-while-listener-dials-hang");
                }
                if a != Affinity::Unknown || limit.map(|l| count + 1 >= l).unwrap_or(false) {
                    decided += 1;
                }
                let t_dial = w.now_ns();
                let res = d.net.connect_with_peer_id(l.addr, l.peer_id).await;
                let took_ms = (w.now_ns() - t_dial) / 1_000_000;
                // "a rejected dialer sees its connect fail": within its connect timeout, not later
                if res.is_err() && took_ms > 1_500 + 50 {
                    w.violate("rejected-dialer-not-told-within-connect-timeout", format!("limit={limit:?}"), format!("step {step}: connect of d{k} failed only after {took_ms} ms (connect timeout 1500 ms)"));
                }
                sleep_ms(settle_ms).await;
                desc = format!("arrive d{k} aff={a:?} count={count}/{limit:?} model={} got={}", if permit { "admit" } else { "refuse" }, if res.is_ok() { "ok" } else { "err" });
                let key = format!("aff={a:?} limit={limit:?} count_vs_limit={}", limit.map(|l| if count < l { "below" } else if count == l { "at" } else { "above" }).unwrap_or("none"));
                let count_after = l.net.peers().iter().filter(|p| **p != d.peer_id).count();
                let permit_lossy = admit(a, limit, count_before.min(count_after));
                if res.is_ok() && !permit && (!lossy || !permit_lossy) {
                    w.violate("inbound-admitted-against-the-rule", key.clone(), format!("step {step}: {desc}"));
                }
                if res.is_err() && permit && !lossy {
                    w.violate("inbound-refused-against-the-rule", key.clone(), format!("step {step}: {desc}: {:#}", res.as_ref().unwrap_err()));
                }
                if res.is_ok() {
                    model.insert(d.peer_id);
                }
                if !permit && !lossy && l.net.peers().contains(&d.peer_id) && !model.contains(&d.peer_id) {
                    w.violate("inbound-admitted-against-the-rule", key, format!("step {step}: the listener lists d{k} although {desc}"));
                }
            } else if choice < 58 {
                // explicit outbound dial by the listener: never blocked by the limit
                if aff_of(&aff, k) == Affinity::Never {
                    continue;
                }
                let res = l.net.connect_with_peer_id(d.addr, d.peer_id).await;
                sleep_ms(settle_ms).await;
                desc = format!("listener dials d{k} count={}/{limit:?} got={}", model.len(), if res.is_ok() { "ok" } else { "err" });
                if limit.map(|x| model.len() >= x).unwrap_or(false) {
                    decided += 1;
                }
                if res.is_err() && !lossy {
                    w.violate("explicit-outbound-dial-blocked", format!("limit={limit:?}"), format!("step {step}: {desc}: {:#}", res.as_ref().unwrap_err()));
                }
                if res.is_ok() {
                    model.insert(d.peer_id);
                }
            } else if choice < 66 {
                // background dial to a High-affinity peer: never blocked by the limit
                if model.contains(&d.peer_id) {
                    continue;
                }
                aff.insert(k, Affinity::High);
                l.net.known_peers().insert(PeerInfo { peer_id: d.peer_id, affinity: PeerAffinity::High, address: vec![d.addr.into()] });
                // (with a stale address on file before, a dial of that address may still be under way -
                // up to the connect timeout - and is followed by a backoff of up to 400 ms before the
                // peer is dialed at its real address: sweep seeds 1101-1105)
                sleep_ms(2 * tick_ms + 1_600 + settle_ms + if stale_addresses { 1_500 + 400 + tick_ms } else { 0 }).await;
                // stop further background dials to keep the history sequential
                l.net.known_peers().insert(PeerInfo { peer_id: d.peer_id, affinity: PeerAffinity::High, address: vec![] });
                let connected = l.net.peers().contains(&d.peer_id);
                desc = format!("background dial to High d{k} count={}/{limit:?} connected={connected}", model.len());
                if limit.map(|x| model.len() >= x).unwrap_or(false) {
                    decided += 1;
                }
                // (with a small cap on connections being established, hanging dials may legitimately
                // postpone a background dial: that is C13's subject; so may the dials of other High
                // entries' stale addresses, each of which holds the one slot for its connect timeout:
                // sweep seed 6007)
                if !connected && !lossy && !(small_cap.is_some() && (hanging || stale_addresses)) {
                    w.violate("background-dial-to-high-peer-blocked", format!("limit={limit:?}"), format!("step {step}: {desc}"));
                }
                if connected {
                    model.insert(d.peer_id);
                } else {
                    // (a dial that was postponed - legitimately, see above - may be under way right
                    // now and complete after the entry has lost its address: the model follows the
                    // listener once that dial has had time to resolve; thorough-tier seed
                    // 17417238847506639808)
                    sleep_ms(1_600 + settle_ms).await;
                    if l.net.peers().contains(&d.peer_id) {
                        model.insert(d.peer_id);
                    }
                }
            } else if choice < 82 {
                // disconnect (frees a slot), by either side; in some runs while a request of that
                // dialer is in a CPU-bound handler at the listener (the slot is free nevertheless:
                // the connection is gone, whatever the handler is still doing)
                if cpu_bound && model.contains(&d.peer_id) && r_cpu.gen_bool(0.5) {
                    let hold: u64 = r_cpu.gen_range(300..3_000);
                    let (net, lid) = (d.net.clone(), l.peer_id);
                    tokio::spawn(async move {
                        let _ = net.rpc(lid, anemo::Request::new(bytes::Bytes::from_static(b"busy")).with_header("x-hold-ms", hold.to_string())).await;
                    });
                    sleep_ms(settle_ms).await;
                    w.probe("disconnect-while-a-handler-is-cpu-bound");
                }
                let by_listener = r.gen_bool(0.5);
                if by_listener {
                    let _ = l.net.disconnect(d.peer_id);
                } else {
                    let _ = d.net.disconnect(l.peer_id);
                }
                sleep_ms(settle_ms).await;
                model.remove(&d.peer_id);
                desc = format!("disconnect d{k} by {}", if by_listener { "listener" } else { "dialer" });
            } else {
                // affinity change at run time
                let a = [Affinity::High, Affinity::Allowed, Affinity::Never, Affinity::Unknown][r.gen_range(0..4)];
                match a {
                    Affinity::Unknown => {
                        l.net.known_peers().remove(&d.peer_id);
                        aff.remove(&k);
                    }
                    _ => {
                        let pa = match a {
                            Affinity::High => PeerAffinity::High,
                            Affinity::Allowed => PeerAffinity::Allowed,
                            _ => PeerAffinity::Never,
                        };
                        // (no address: affinity only; background dialing is exercised separately) - or,
                        // in part of the runs, a High entry with a *stale* address where nobody
                        // answers: the listener's own background dial of that peer is then pending
                        // (or just failed) whenever the peer itself arrives, which changes nothing
                        let address = if stale_addresses && a == Affinity::High { w.probe("high-entry-with-a-stale-address"); vec![addr(230 + k as u8).into()] } else { vec![] };
                        l.net.known_peers().insert(PeerInfo { peer_id: d.peer_id, affinity: pa, address });
                        aff.insert(k, a);
                    }
                }
                desc = format!("affinity d{k} := {a:?}");
            }
            w.event(desc.split(" got=").next().unwrap_or("").split(" connected=").next().unwrap_or("").to_string() + if desc.contains("got=ok") || desc.contains("connected=true") { " +" } else { " -" });
            if steps_log.len() < 30 {
                steps_log.push(desc.clone());
            }
            // listing equals the model after every step (strict configuration)
            let listed: BTreeSet<PeerId> = l.net.peers().into_iter().collect();
            if !lossy && listed != model {
                w.violate("listing-differs-from-admission-model", format!("limit={limit:?}"), format!("after step {step} ({desc}): listener lists {:?}, model {:?}", listed.iter().map(|p| w.pname(p)).collect::<Vec<_>>(), model.iter().map(|p| w.pname(p)).collect::<Vec<_>>()));
            }
            if lossy {
                // under loss the model follows the listener for connections that were lost
                model = model.intersection(&listed).copied().collect::<BTreeSet<_>>().union(&listed).copied().collect();
            }
            if w.violated() {
                break;
            }
        }
        for t in hanging_tasks {
            t.abort();
        }
        if decided > 0 {
            w.mark_overlap();
        }
        w.probe_n("steps-decided-by-limit-or-affinity", decided);
        w.sample("history", json!({"limit": limit, "dialers": n_dialers, "lossy": lossy, "steps": steps_log}));
        let out = w.finish();
        drop((l, dialers, retired));
        out
    })
}
