//! Direct drive of the real active-peer set with real connections (hook H6):
//! C04 (exact change log under every operation order, late handler exits) and C05 (tie-break
//! table, both sides keep the same connection in every arrival order).

use crate::fabric::{LinkCfg, SimRuntime};
use crate::model::tie_break_drop_existing;
use crate::runner::{ScenFuture, Scenario};
use crate::world::*;
use anemo::types::{DisconnectReason, PeerEvent};
use anemo::verif::net::{tie_break, DirectConnection, DirectEndpoint, DirectPeers};
use anemo::{ConnectionOrigin, PeerId};
use rand::Rng;
use serde_json::json;
use std::collections::{BTreeMap, BTreeSet};
use std::net::SocketAddr;
use std::sync::Arc;

pub static C04_DIRECT: Scenario = Scenario {
    id: "C04",
    name: "c04-direct-drive",
    run: run_c04,
    quick_runs: 6000,
    thorough_runs: 300_000,
    rule: "one run = the real active-peer set of one endpoint driven directly with 2-5 real QUIC connections (either direction) to 1-2 remote identities in a seeded order of 3-12 operations (add, remove, remove_with_stable_id = exit of that connection's handler incl. after it was replaced or removed, subscribe, peers), in half of the runs with simulated preemption (operations of 'another thread' run at the scheduling points just before the active-peer lock is taken, hook H7), checked against a reference map: listing, exact event sequence per subscription, return value of add, and which connections are closed; distinct = distinct operation sequence signature; non-trivial = the sequence contains a replacement, a rejected add or a late handler exit",
    real: &["anemo ActivePeers (add / remove / remove_with_stable_id / subscribe / peers) and tie-break", "anemo Endpoint + Connection, quinn, rustls (real connections)"],
    stubbed: &["connection manager event loop and request handlers (operations are issued by the harness in their place)", "UDP socket, clock (fabric, virtual time)"],
};

pub static C05_DIRECT: Scenario = Scenario {
    id: "C05",
    name: "c05-tie-break-table",
    run: run_c05,
    quick_runs: 300,
    thorough_runs: 5_000,
    rule: "one run = one pair of identities: the tie-break function over all 4 origin pairs from both sides against the reference rule, and with real connections (one dialed by each side) all 4 combinations of arrival order at the two sides: both sides must keep the same connection, the one dialed by the greater PeerId, and close the other (exhaustive per identity pair; pairs are seeded); distinct = (identity order, arrival orders); non-trivial = all",
    real: &["anemo ActivePeers::add and simultaneous_dial_tie_breaking", "anemo Endpoint + Connection, quinn, rustls (real connections)"],
    stubbed: &["connection manager event loop (adds are issued by the harness)", "UDP socket, clock"],
};

struct Ep {
    ep: DirectEndpoint,
    addr: SocketAddr,
    id: PeerId,
}

fn endpoint(w: &World, idx: u8) -> Ep {
    let a = addr(idx);
    let socket = w.fabric.bind(a).unwrap();
    let key = w.key_for(idx);
    anemo::verif::set_next_transport(anemo::verif::Transport {
        socket,
        runtime: Arc::new(SimRuntime::default()),
        rng_seed: w.choice.bytes32(&format!("quinn:{idx}")),
    });
    let mut t = quinn::TransportConfig::default();
    t.max_idle_timeout(Some(quinn::VarInt::from_u32(30_000).into()));
    let ep = DirectEndpoint::new("sim", key, t).unwrap();
    let id = ep.peer_id();
    w.name_peer(id, &format!("e{idx}"));
    Ep { ep, addr: a, id }
}

/// A connection dialed by `from` to `to`: (handle at `from` [Outbound], handle at `to` [Inbound]).
async fn connect(from: &Ep, to: &Ep) -> Result<(DirectConnection, DirectConnection), String> {
    let (a, b) = tokio::join!(from.ep.connect(to.addr), to.ep.accept());
    Ok((a.map_err(|e| e.to_string())?, b.map_err(|e| e.to_string())?))
}

fn inbound(c: &DirectConnection) -> bool {
    c.origin() == ConnectionOrigin::Inbound
}

#[derive(Clone, Debug)]
enum Op {
    Add(usize),
    Remove(usize, DisconnectReason),
    HandlerExit(usize, DisconnectReason),
    Subscribe,
    Peers,
}

struct Direct {
    own: PeerId,
    peers: DirectPeers,
    conns: Vec<DirectConnection>,
    // reference model
    map: BTreeMap<PeerId, usize>,
    closed: BTreeSet<usize>,
    /// connections that the remote side ended before they were handed to `add`
    pre_closed: BTreeSet<usize>,
    added: BTreeSet<usize>,
    registered: BTreeSet<usize>,
    model_events: Vec<PeerEvent>,
    replacements: Vec<usize>, // index into model_events of each replacement's LostPeer
    subs: Vec<(Subscription, usize)>,
    ops: Vec<String>,
    pending: std::collections::VecDeque<Op>,
    interesting: bool,
    preempted: u64,
}

type Shared = std::rc::Rc<std::cell::RefCell<Direct>>;

/// Execute one operation against the real active-peer set and the reference model. The real call
/// is made without holding a borrow of the shared state: a scheduling point inside it (hook H7,
/// just before the lock is taken) may run a pending operation of "another thread" right there.
fn exec(st: &Shared, w: &World, op: Op, nested: bool) {
    let (peers, own) = {
        let s = st.borrow();
        (s.peers.clone(), s.own)
    };
    let tag = if nested { "~" } else { "" };
    match op {
        Op::Add(k) => {
            let c = st.borrow().conns[k].clone();
            let p = c.peer_id();
            let got = peers.add(&own, &c);
            let mut s = st.borrow_mut();
            let expect = match s.map.get(&p).copied() {
                None => {
                    s.map.insert(p, k);
                    s.model_events.push(PeerEvent::NewPeer(p));
                    true
                }
                // a connection that has already ended never displaces a live one (finding F-I)
                Some(e) if s.pre_closed.contains(&k) && !s.pre_closed.contains(&e) => {
                    s.interesting = true;
                    false
                }
                Some(e) => {
                    s.interesting = true;
                    if tie_break_drop_existing(&own.0, &p.0, inbound(&s.conns[e]), inbound(&s.conns[k])) {
                        s.closed.insert(e);
                        s.map.insert(p, k);
                        let at = s.model_events.len();
                        s.replacements.push(at);
                        s.model_events.push(PeerEvent::LostPeer(p, DisconnectReason::Requested));
                        s.model_events.push(PeerEvent::NewPeer(p));
                        true
                    } else {
                        s.closed.insert(k);
                        false
                    }
                }
            };
            if expect {
                s.registered.insert(k);
            }
            let desc = format!("{tag}add(c{k}:{}{})={got}", w.pname(&p), if inbound(&c) { "<" } else { ">" });
            s.ops.push(desc.clone());
            if got != expect {
                w.violate("add-return-value", "add", format!("{desc}: model says {expect}; ops so far {:?}", s.ops));
            }
        }
        Op::Remove(k, reason) => {
            let p = st.borrow().conns[k].peer_id();
            peers.remove(&p, reason.clone());
            let mut s = st.borrow_mut();
            if let Some(e) = s.map.remove(&p) {
                s.closed.insert(e);
                s.model_events.push(PeerEvent::LostPeer(p, reason));
            }
            let d = format!("{tag}remove({})", w.pname(&p));
            s.ops.push(d);
        }
        Op::HandlerExit(k, reason) => {
            let (p, sid) = {
                let s = st.borrow();
                (s.conns[k].peer_id(), s.conns[k].stable_id())
            };
            peers.remove_with_stable_id(p, sid, reason.clone());
            let mut s = st.borrow_mut();
            if s.map.get(&p) != Some(&k) {
                s.interesting = true;
            }
            if s.map.get(&p) == Some(&k) {
                s.map.remove(&p);
                s.closed.insert(k);
                s.model_events.push(PeerEvent::LostPeer(p, reason));
            }
            s.registered.remove(&k);
            let d = format!("{tag}handler-exit(c{k}:{})", w.pname(&p));
            s.ops.push(d);
        }
        Op::Subscribe => {
            let (rx, snap) = peers.subscribe();
            let mut s = st.borrow_mut();
            let listed: BTreeSet<PeerId> = snap.iter().copied().collect();
            let model_listed: BTreeSet<PeerId> = s.map.keys().copied().collect();
            s.ops.push(format!("{tag}subscribe"));
            if listed != model_listed {
                w.violate("snapshot-differs-from-listing", "subscribe", format!("after {:?}: the snapshot returned with a subscription lists {:?}, the listing is {:?}", s.ops, listed.iter().map(|p| w.pname(p)).collect::<Vec<_>>(), model_listed.iter().map(|p| w.pname(p)).collect::<Vec<_>>()));
            }
            let from = s.model_events.len();
            s.subs.push((Subscription::from_parts(rx, snap), from));
        }
        Op::Peers => {
            let listed: BTreeSet<PeerId> = peers.peers().into_iter().collect();
            let mut s = st.borrow_mut();
            s.ops.push(format!("{tag}peers"));
            let model_listed: BTreeSet<PeerId> = s.map.keys().copied().collect();
            if listed != model_listed {
                w.violate("listing-differs-from-model", "peers", format!("after {:?}: peers() = {:?}, model = {:?}", s.ops, listed.iter().map(|p| w.pname(p)).collect::<Vec<_>>(), model_listed.iter().map(|p| w.pname(p)).collect::<Vec<_>>()));
            }
        }
    }
}

/// Invariants compared with the model once the state is quiescent (after a top-level operation).
fn compare(st: &Shared, w: &World) {
    let peers = st.borrow().peers.clone();
    let listed_vec = peers.peers();
    let mut s = st.borrow_mut();
    let s = &mut *s;
    let listed: BTreeSet<PeerId> = listed_vec.iter().copied().collect();
    let model_listed: BTreeSet<PeerId> = s.map.keys().copied().collect();
    let ops = s.ops.clone();
    if listed != model_listed || listed_vec.len() != listed.len() {
        w.violate("listing-differs-from-model", "peers", format!("after {ops:?}: peers() = {:?}, model = {:?}", listed.iter().map(|p| w.pname(p)).collect::<Vec<_>>(), model_listed.iter().map(|p| w.pname(p)).collect::<Vec<_>>()));
    }
    for (p, k) in &s.map {
        if peers.get_stable_id(p) != Some(s.conns[*k].stable_id()) {
            w.violate("wrong-connection-registered", "map", format!("after {ops:?}: the connection registered for {} is not c{k}", w.pname(p)));
        }
    }
    for (k, c) in s.conns.iter().enumerate() {
        let is_closed = c.close_reason().is_some();
        if is_closed != (s.closed.contains(&k) || s.pre_closed.contains(&k)) {
            w.violate(if is_closed { "live-connection-closed" } else { "unregistered-connection-left-open" }, "connections", format!("after {ops:?}: c{k} closed = {is_closed}, model closed = {}", s.closed.contains(&k)));
        }
    }
    let now = w.now_ns();
    let kind = |e: &PeerEvent| match e {
        PeerEvent::NewPeer(p) => (true, *p),
        PeerEvent::LostPeer(p, _) => (false, *p),
    };
    for (i, (sub, from)) in s.subs.iter_mut().enumerate() {
        sub.drain(now);
        if let Some(e) = &sub.alternation_error {
            w.violate("event-alternation", "subscription", format!("after {ops:?}: subscription {i}: {e}"));
        }
        if sub.listed != model_listed {
            w.violate("events-do-not-reproduce-listing", "subscription", format!("after {ops:?}: subscription {i} (snapshot {} peers + {} events) reconstructs {:?}, listing is {:?}", sub.snapshot.len(), sub.history.len(), sub.listed.iter().map(|p| w.pname(p)).collect::<Vec<_>>(), model_listed.iter().map(|p| w.pname(p)).collect::<Vec<_>>()));
        }
        // the event sequence equals the model's, by kind and peer; a replacement may be announced
        // as Lost+New or not at all; nothing else may be published
        let got: Vec<(bool, PeerId)> = sub.history.iter().map(|e| kind(&e.ev)).collect();
        let want: Vec<(bool, PeerId)> = s.model_events[*from..].iter().map(kind).collect();
        let mut want_min = Vec::new();
        let mut idx = *from;
        while idx < s.model_events.len() {
            if s.replacements.contains(&idx) {
                idx += 2;
                continue;
            }
            want_min.push(kind(&s.model_events[idx]));
            idx += 1;
        }
        if got != want && got != want_min {
            w.violate(if got.len() > want.len() { "spurious-event" } else { "event-sequence-differs-from-model" }, "subscription", format!("after {ops:?}: subscription {i} saw {got:?}, the reference model {want:?} (true = NewPeer)"));
        }
    }
}

fn run_c04(input: RunInput) -> ScenFuture {
    Box::pin(async move {
        let w = World::new(&input, LinkCfg::clean(200, 2_000));
        let own = endpoint(&w, 1);
        let remotes = [endpoint(&w, 2), endpoint(&w, 3)];
        let n_peers = w.param("peers", 1, 2) as usize;
        let n_conns = w.param("connections", 2, 5) as usize;
        let n_ops = w.param("ops", 3, if w.tier == Tier::Quick { 12 } else { 40 }) as usize;
        // simulated preemption: at every scheduling point (just before the active-peer lock is
        // taken, hook H7) a pending operation of "another thread" may run
        let preempt = w.flag("preemption", 0.5);
        let mut r = w.rng("wl:direct");
        let mut conns: Vec<DirectConnection> = Vec::new();
        let mut remote_handles: Vec<Option<DirectConnection>> = Vec::new();
        for _ in 0..n_conns {
            let rm = &remotes[r.gen_range(0..n_peers)];
            // (the remote-side handle must stay alive: dropping the last handle closes a connection)
            let c = if r.gen_bool(0.5) { connect(&own, rm).await } else { connect(rm, &own).await.map(|x| (x.1, x.0)) };
            match c {
                Ok((c, other)) => {
                    conns.push(c);
                    remote_handles.push(Some(other));
                }
                Err(e) => {
                    w.harness_error(format!("direct connection failed: {e}"));
                    return w.finish();
                }
            }
        }
        let st: Shared = std::rc::Rc::new(std::cell::RefCell::new(Direct {
            own: own.id,
            peers: DirectPeers::new(4096),
            conns,
            map: BTreeMap::new(),
            closed: BTreeSet::new(),
            pre_closed: BTreeSet::new(),
            added: BTreeSet::new(),
            registered: BTreeSet::new(),
            model_events: Vec::new(),
            replacements: Vec::new(),
            subs: Vec::new(),
            ops: Vec::new(),
            pending: Default::default(),
            interesting: false,
            preempted: 0,
        }));
        let reasons = [DisconnectReason::Requested, DisconnectReason::TimedOut, DisconnectReason::ApplicationClosed, DisconnectReason::LocallyClosed, DisconnectReason::ConnectionClosed];
        if preempt {
            let (st2, w2) = (st.clone(), w.clone());
            let mut pr = w.rng("wl:preempt");
            anemo::verif::set_sched_hook(Some(Box::new(move |tag| {
                if tag != "active-peers" {
                    return;
                }
                // (scheduling points reached while the harness itself inspects the state - a
                // borrow is held - are not preemption opportunities)
                let take = pr.gen_bool(0.5);
                let op = match st2.try_borrow_mut() {
                    Ok(mut s) if take => {
                        let op = s.pending.pop_front();
                        if op.is_some() {
                            s.preempted += 1;
                        }
                        op
                    }
                    _ => None,
                };
                if let Some(op) = op {
                    exec(&st2, &w2, op, true);
                }
            })));
        }
        let mut gen_op = |st: &Shared, r: &mut rand::rngs::StdRng| -> Option<Op> {
            let s = st.borrow();
            let k = r.gen_range(0..s.conns.len());
            let choice = r.gen_range(0..100);
            // (an operation queued for "the other thread" counts as issued)
            if choice < 40 && !s.added.contains(&k) {
                drop(s);
                st.borrow_mut().added.insert(k);
                Some(Op::Add(k))
            } else if choice < 55 {
                Some(Op::Remove(k, reasons[r.gen_range(0..reasons.len())].clone()))
            } else if choice < 85 && s.added.contains(&k) {
                // the request handler of connection k exits (possibly long after k was replaced or
                // removed; a no-op in the model if k was never registered)
                Some(Op::HandlerExit(k, reasons[r.gen_range(0..reasons.len())].clone()))
            } else if choice < 93 {
                Some(Op::Subscribe)
            } else {
                Some(Op::Peers)
            }
        };
        for _ in 0..n_ops {
            if preempt {
                for _ in 0..r.gen_range(0..3) {
                    if let Some(op) = gen_op(&st, &mut r) {
                        // a handler exit can only be queued for a connection whose add already ran
                        let ok = match &op {
                            Op::HandlerExit(k, _) => st.borrow().registered.contains(k),
                            _ => true,
                        };
                        if ok {
                            st.borrow_mut().pending.push_back(op);
                        } else if let Op::Add(k) = op {
                            st.borrow_mut().added.remove(&k);
                        }
                    }
                }
            }
            if let Some(op) = gen_op(&st, &mut r) {
                let ok = match &op {
                    Op::HandlerExit(k, _) => st.borrow().registered.contains(k),
                    _ => true,
                };
                // the remote may have hung up before the connection is handed to `add` (its close
                // has arrived: the connection is known to be closed when it is registered)
                if let Op::Add(k) = &op {
                    if r.gen_bool(0.25) {
                        if let Some(h) = remote_handles[*k].take() {
                            drop(h);
                            crate::scen::common::sleep_ms(20).await;
                            if st.borrow().conns[*k].close_reason().is_some() {
                                st.borrow_mut().pre_closed.insert(*k);
                                w.probe("connection-ended-before-it-was-registered");
                            }
                        }
                    }
                }
                if ok {
                    exec(&st, &w, op, false);
                }
            }
            // whatever "the other thread" did not get to run inside a window runs now
            loop {
                let op = st.borrow_mut().pending.pop_front();
                match op {
                    Some(Op::HandlerExit(k, reason)) => {
                        if st.borrow().registered.contains(&k) {
                            exec(&st, &w, Op::HandlerExit(k, reason), false);
                        }
                    }
                    Some(op) => exec(&st, &w, op, false),
                    None => break,
                }
            }
            compare(&st, &w);
            if w.violated() {
                break;
            }
        }
        anemo::verif::set_sched_hook(None);
        let s = st.borrow();
        for o in &s.ops {
            w.event(o.clone());
        }
        if s.interesting || s.preempted > 0 {
            w.mark_overlap();
        }
        w.probe_n("operations-run-inside-a-preemption-window", s.preempted);
        w.sample("ops", json!({"preemption": preempt, "connections": s.conns.iter().map(|c| format!("{}{}", w.pname(&c.peer_id()), if inbound(c) { "<" } else { ">" })).collect::<Vec<_>>(), "ops": s.ops}));
        drop(s);
        let out = w.finish();
        drop(remote_handles);
        anemo::verif::set_sched_hook(None);
        own.ep.close();
        for rm in &remotes {
            rm.ep.close();
        }
        out
    })
}

pub static C04_EXHAUSTIVE: Scenario = Scenario {
    id: "C04",
    name: "c04-direct-exhaustive",
    run: run_c04_exhaustive,
    // 4 connection configurations x all sequences of length 1..=3 (quick) / 1..=5 (thorough) over an
    // alphabet of 9 operations
    quick_runs: 4 * (9 + 81 + 729),
    thorough_runs: 4 * (9 + 81 + 729 + 6561 + 59049),
    rule: "bounded-exhaustive: every sequence of 1-3 (quick) / 1-5 (thorough) operations from {add c0, add c1, add c2, remove peer of c0, remove peer of c2, handler-exit c0, c1, c2, subscribe} over 4 fixed configurations of three real connections to one or two peers (all origin combinations), with a subscription taken first; checked against the reference map after every operation; the run index enumerates the space completely; distinct = each sequence; non-trivial = a replacement, rejected add or late handler exit occurred",
    real: &["anemo ActivePeers (add / remove / remove_with_stable_id / subscribe / peers) and tie-break", "anemo Endpoint + Connection, quinn, rustls (real connections)"],
    stubbed: &["connection manager event loop and request handlers (operations are issued by the harness in their place)", "UDP socket, clock (fabric, virtual time)"],
};

fn run_c04_exhaustive(input: RunInput) -> ScenFuture {
    Box::pin(async move {
        let w = World::new(&input, LinkCfg::clean(200, 1_000));
        // decode the run index: configuration, then sequence length, then base-9 digits
        let config = (input.index % 4) as usize;
        let mut rest = input.index / 4;
        let mut len = 1u32;
        while rest >= 9u64.pow(len) {
            rest -= 9u64.pow(len);
            len += 1;
        }
        let mut digits = Vec::new();
        for _ in 0..len {
            digits.push((rest % 9) as usize);
            rest /= 9;
        }
        let own = endpoint(&w, 1);
        let remotes = [endpoint(&w, 2), endpoint(&w, 3)];
        // (remote index, dialed by own?) for c0, c1, c2
        let layout: [(usize, bool); 3] = match config {
            0 => [(0, true), (0, false), (1, true)],
            1 => [(0, false), (0, true), (0, false)],
            2 => [(0, true), (0, true), (1, false)],
            _ => [(0, false), (0, false), (0, true)],
        };
        let mut conns = Vec::new();
        let mut remote_handles = Vec::new();
        for (ri, by_own) in layout {
            let c = if by_own { connect(&own, &remotes[ri]).await } else { connect(&remotes[ri], &own).await.map(|x| (x.1, x.0)) };
            match c {
                Ok((c, other)) => {
                    conns.push(c);
                    remote_handles.push(other);
                }
                Err(e) => {
                    w.harness_error(format!("direct connection failed: {e}"));
                    return w.finish();
                }
            }
        }
        let st: Shared = std::rc::Rc::new(std::cell::RefCell::new(Direct {
            own: own.id,
            peers: DirectPeers::new(4096),
            conns,
            map: BTreeMap::new(),
            closed: BTreeSet::new(),
            pre_closed: BTreeSet::new(),
            added: BTreeSet::new(),
            registered: BTreeSet::new(),
            model_events: Vec::new(),
            replacements: Vec::new(),
            subs: Vec::new(),
            ops: Vec::new(),
            pending: Default::default(),
            interesting: false,
            preempted: 0,
        }));
        exec(&st, &w, Op::Subscribe, false);
        for d in digits {
            let op = match d {
                0..=2 => {
                    // a connection is added at most once (as the connection manager does)
                    if !st.borrow_mut().added.insert(d) {
                        continue;
                    }
                    Op::Add(d)
                }
                3 => Op::Remove(0, DisconnectReason::Requested),
                4 => Op::Remove(2, DisconnectReason::Requested),
                5..=7 => {
                    // the handler of a connection exits only if it was started (add returned true)
                    if !st.borrow().registered.contains(&(d - 5)) {
                        continue;
                    }
                    Op::HandlerExit(d - 5, DisconnectReason::ConnectionClosed)
                }
                _ => Op::Subscribe,
            };
            exec(&st, &w, op, false);
            compare(&st, &w);
            if w.violated() {
                break;
            }
        }
        let s = st.borrow();
        for o in &s.ops {
            w.event(o.clone());
        }
        w.event(format!("cfg{config}"));
        if s.interesting {
            w.mark_overlap();
        }
        w.sample("sequence", json!({"configuration": config, "ops": s.ops}));
        drop(s);
        let out = w.finish();
        drop(remote_handles);
        own.ep.close();
        for rm in &remotes {
            rm.ep.close();
        }
        out
    })
}

fn run_c05(input: RunInput) -> ScenFuture {
    Box::pin(async move {
        let w = World::new(&input, LinkCfg::clean(200, 2_000));
        let a = endpoint(&w, 1);
        let b = endpoint(&w, 2);
        // pure table, from both sides
        let io = [ConnectionOrigin::Inbound, ConnectionOrigin::Outbound];
        for (own, remote) in [(&a.id, &b.id), (&b.id, &a.id)] {
            for e in io {
                for n in io {
                    let got = tie_break(own, remote, e, n);
                    let want = tie_break_drop_existing(&own.0, &remote.0, e == ConnectionOrigin::Inbound, n == ConnectionOrigin::Inbound);
                    w.check(got == want, "tie-break-table", format!("existing={e:?} new={n:?} own_greater={}", own > remote), || format!("tie-break returned {got}, reference rule says {want}"));
                }
            }
        }
        // real connections, every arrival order at each side
        let mut cases = Vec::new();
        for order_a in [0, 1] {
            for order_b in [0, 1] {
                let (c1a, c1b) = match connect(&a, &b).await {
                    Ok(x) => x,
                    Err(e) => {
                        w.harness_error(e);
                        return w.finish();
                    }
                };
                let (c2b, c2a) = match connect(&b, &a).await {
                    Ok(x) => x,
                    Err(e) => {
                        w.harness_error(e);
                        return w.finish();
                    }
                };
                let pa = DirectPeers::new(64);
                let pb = DirectPeers::new(64);
                let at_a = if order_a == 0 { [&c1a, &c2a] } else { [&c2a, &c1a] };
                let at_b = if order_b == 0 { [&c1b, &c2b] } else { [&c2b, &c1b] };
                for c in at_a {
                    let _ = pa.add(&a.id, c);
                }
                for c in at_b {
                    let _ = pb.add(&b.id, c);
                }
                // which connection does each side keep? 1 = dialed by a, 2 = dialed by b
                let keep_a = if pa.get_stable_id(&b.id) == Some(c1a.stable_id()) { 1 } else if pa.get_stable_id(&b.id) == Some(c2a.stable_id()) { 2 } else { 0 };
                let keep_b = if pb.get_stable_id(&a.id) == Some(c1b.stable_id()) { 1 } else if pb.get_stable_id(&a.id) == Some(c2b.stable_id()) { 2 } else { 0 };
                let want = if a.id > b.id { 1 } else { 2 };
                let key = format!("order_a={order_a} order_b={order_b} a_greater={}", a.id > b.id);
                w.event(format!("{key}:{keep_a}{keep_b}"));
                cases.push(json!({"order_at_a": order_a, "order_at_b": order_b, "a_greater": a.id > b.id, "kept_at_a": keep_a, "kept_at_b": keep_b}));
                w.check(keep_a == keep_b && keep_a != 0, "sides-keep-different-connections", key.clone(), || format!("a keeps the connection dialed by {keep_a}, b keeps the one dialed by {keep_b} (1 = a, 2 = b)"));
                w.check(keep_a == want, "survivor-depends-on-arrival-order", key.clone(), || format!("a keeps {keep_a}, expected the connection dialed by the greater PeerId ({want})"));
                // the loser is closed on the side that dropped it, the winner is open
                let (win_a, lose_a) = if keep_a == 1 { (&c1a, &c2a) } else { (&c2a, &c1a) };
                let (win_b, lose_b) = if keep_b == 1 { (&c1b, &c2b) } else { (&c2b, &c1b) };
                w.check(win_a.close_reason().is_none() && win_b.close_reason().is_none(), "winner-closed", key.clone(), || "the surviving connection was closed".into());
                w.check(lose_a.close_reason().is_some() && lose_b.close_reason().is_some(), "loser-left-open", key.clone(), || "the dropped connection was not closed".into());
                for p in [&pa, &pb] {
                    w.check(p.peers().len() == 1, "duplicate-listing", key.clone(), || format!("{} peers listed", p.peers().len()));
                }
            }
        }
        w.mark_overlap();
        w.sample("cases", json!(cases));
        let out = w.finish();
        a.ep.close();
        b.ep.close();
        out
    })
}
