//! Direct drive of the real active-peer set with real connections (hook H6):
//! C04 (exact change log under every operation order, late handler exits) and C05 (tie-break
//! table, both sides keep the same connection in every arrival order).

use crate::fabric::{LinkCfg, SimRuntime};
use crate::model::tie_break_drop_existing;
use crate::runner::{ScenFuture, Scenario};
use crate::world::*;
use anemo::types::{DisconnectReason, PeerEvent};
use anemo::verif::net::{tie_break, DirectConnection, DirectEndpoint, DirectPeers};
use anemo::{ConnectionOrigin, PeerId};
use rand::Rng;
use serde_json::json;
use std::collections::{BTreeMap, BTreeSet};
use std::net::SocketAddr;
use std::sync::Arc;

pub static C04_DIRECT: Scenario = Scenario {
    id: "C04",
    name: "c04-direct-drive",
    run: run_c04,
    quick_runs: 6000,
    thorough_runs: 300_000,
    rule: "one run = the real active-peer set of one endpoint driven directly with 2-5 real QUIC connections (either direction) to 1-2 remote identities in a seeded order of 3-12 operations (add, remove, remove_with_stable_id = exit of that connection's handler incl. after it was replaced or removed, subscribe, peers) checked operation by operation against a reference map: listing, exact event sequence per subscription, return value of add, and which connections are closed; distinct = distinct operation sequence signature; non-trivial = the sequence contains a replacement, a rejected add or a late handler exit",
    real: &["anemo ActivePeers (add / remove / remove_with_stable_id / subscribe / peers) and tie-break", "anemo Endpoint + Connection, quinn, rustls (real connections)"],
    stubbed: &["connection manager event loop and request handlers (operations are issued by the harness in their place)", "UDP socket, clock (fabric, virtual time)"],
};

pub static C05_DIRECT: Scenario = Scenario {
    id: "C05",
    name: "c05-tie-break-table",
    run: run_c05,
    quick_runs: 300,
    thorough_runs: 5_000,
    rule: "one run = one pair of identities: the tie-break function over all 4 origin pairs from both sides against the reference rule, and with real connections (one dialed by each side) all 4 combinations of arrival order at the two sides: both sides must keep the same connection, the one dialed by the greater PeerId, and close the other (exhaustive per identity pair; pairs are seeded); distinct = (identity order, arrival orders); non-trivial = all",
    real: &["anemo ActivePeers::add and simultaneous_dial_tie_breaking", "anemo Endpoint + Connection, quinn, rustls (real connections)"],
    stubbed: &["connection manager event loop (adds are issued by the harness)", "UDP socket, clock"],
};

struct Ep {
    ep: DirectEndpoint,
    addr: SocketAddr,
    id: PeerId,
}

fn endpoint(w: &World, idx: u8) -> Ep {
    let a = addr(idx);
    let socket = w.fabric.bind(a).unwrap();
    let key = w.key_for(idx);
    anemo::verif::set_next_transport(anemo::verif::Transport {
        socket,
        runtime: Arc::new(SimRuntime::default()),
        rng_seed: w.choice.bytes32(&format!("quinn:{idx}")),
    });
    let mut t = quinn::TransportConfig::default();
    t.max_idle_timeout(Some(quinn::VarInt::from_u32(30_000).into()));
    let ep = DirectEndpoint::new("sim", key, t).unwrap();
    let id = ep.peer_id();
    w.name_peer(id, &format!("e{idx}"));
    Ep { ep, addr: a, id }
}

/// A connection dialed by `from` to `to`: (handle at `from` [Outbound], handle at `to` [Inbound]).
async fn connect(from: &Ep, to: &Ep) -> Result<(DirectConnection, DirectConnection), String> {
    let (a, b) = tokio::join!(from.ep.connect(to.addr), to.ep.accept());
    Ok((a.map_err(|e| e.to_string())?, b.map_err(|e| e.to_string())?))
}

fn inbound(c: &DirectConnection) -> bool {
    c.origin() == ConnectionOrigin::Inbound
}

fn run_c04(input: RunInput) -> ScenFuture {
    Box::pin(async move {
        let w = World::new(&input, LinkCfg::clean(200, 2_000));
        let own = endpoint(&w, 1);
        let remotes = [endpoint(&w, 2), endpoint(&w, 3)];
        let n_peers = w.param("peers", 1, 2) as usize;
        let n_conns = w.param("connections", 2, 5) as usize;
        let n_ops = w.param("ops", 3, 12) as usize;
        let mut r = w.rng("wl:direct");
        // connections, from the point of view of `own`
        let mut conns: Vec<DirectConnection> = Vec::new();
        let mut remote_handles: Vec<DirectConnection> = Vec::new();
        for _ in 0..n_conns {
            let rm = &remotes[r.gen_range(0..n_peers)];
            // (the remote-side handle must stay alive: dropping the last handle closes a connection)
            let c = if r.gen_bool(0.5) { connect(&own, rm).await } else { connect(rm, &own).await.map(|x| (x.1, x.0)) };
            match c {
                Ok((c, other)) => {
                    conns.push(c);
                    remote_handles.push(other);
                }
                Err(e) => {
                    w.harness_error(format!("direct connection failed: {e}"));
                    return w.finish();
                }
            }
        }
        let peers = DirectPeers::new(4096);
        // reference model
        let mut map: BTreeMap<PeerId, usize> = BTreeMap::new();
        let mut closed: BTreeSet<usize> = BTreeSet::new();
        let mut added: BTreeSet<usize> = BTreeSet::new();
        let mut registered: BTreeSet<usize> = BTreeSet::new();
        let mut model_events: Vec<PeerEvent> = Vec::new();
        let mut subs: Vec<(Subscription, usize)> = Vec::new(); // (subscription, index into model_events at subscribe time)
        let reasons = [DisconnectReason::Requested, DisconnectReason::TimedOut, DisconnectReason::ApplicationClosed, DisconnectReason::LocallyClosed, DisconnectReason::ConnectionClosed];
        let mut ops = Vec::new();
        let mut interesting = false;
        for step in 0..n_ops {
            let k = r.gen_range(0..conns.len());
            let p = conns[k].peer_id();
            let choice = r.gen_range(0..100);
            let model_before = model_events.len();
            let mut seen_before: Vec<usize> = subs.iter().map(|(s, _)| s.history.len()).collect();
            let desc;
            if choice < 40 && !added.contains(&k) {
                added.insert(k);
                let got = peers.add(&own.id, &conns[k]);
                let expect = match map.get(&p).copied() {
                    None => {
                        map.insert(p, k);
                        model_events.push(PeerEvent::NewPeer(p));
                        true
                    }
                    Some(e) => {
                        interesting = true;
                        if tie_break_drop_existing(&own.id.0, &p.0, inbound(&conns[e]), inbound(&conns[k])) {
                            closed.insert(e);
                            map.insert(p, k);
                            model_events.push(PeerEvent::LostPeer(p, DisconnectReason::Requested));
                            model_events.push(PeerEvent::NewPeer(p));
                            true
                        } else {
                            closed.insert(k);
                            false
                        }
                    }
                };
                if expect {
                    registered.insert(k);
                }
                desc = format!("add(c{k}:{}{})={got}", w.pname(&p), if inbound(&conns[k]) { "<" } else { ">" });
                w.check(got == expect, "add-return-value", "add", || format!("step {step} {desc}: model says {expect}; ops so far {ops:?}"));
            } else if choice < 55 {
                let reason = reasons[r.gen_range(0..reasons.len())].clone();
                peers.remove(&p, reason.clone());
                if let Some(e) = map.remove(&p) {
                    closed.insert(e);
                    model_events.push(PeerEvent::LostPeer(p, reason));
                }
                desc = format!("remove({})", w.pname(&p));
            } else if choice < 85 && registered.contains(&k) {
                // the request handler of connection k exits (possibly long after k was replaced / removed)
                let reason = reasons[r.gen_range(0..reasons.len())].clone();
                if map.get(&p) != Some(&k) {
                    interesting = true;
                }
                peers.remove_with_stable_id(p, conns[k].stable_id(), reason.clone());
                if map.get(&p) == Some(&k) {
                    map.remove(&p);
                    closed.insert(k);
                    model_events.push(PeerEvent::LostPeer(p, reason));
                }
                registered.remove(&k);
                desc = format!("handler-exit(c{k}:{})", w.pname(&p));
            } else if choice < 93 {
                let (rx, snap) = peers.subscribe();
                subs.push((Subscription::from_parts(rx, snap), model_events.len()));
                seen_before.push(0);
                desc = "subscribe".to_string();
            } else {
                desc = "peers".to_string();
            }
            ops.push(desc.clone());
            w.event(desc);
            // ---- compare with the model after every operation ----
            let listed: BTreeSet<PeerId> = peers.peers().into_iter().collect();
            let model_listed: BTreeSet<PeerId> = map.keys().copied().collect();
            if listed != model_listed || peers.peers().len() != listed.len() {
                w.violate("listing-differs-from-model", "peers", format!("after {ops:?}: peers() = {:?}, model = {:?}", listed.iter().map(|p| w.pname(p)).collect::<Vec<_>>(), model_listed.iter().map(|p| w.pname(p)).collect::<Vec<_>>()));
            }
            for (p, k) in &map {
                if peers.get_stable_id(p) != Some(conns[*k].stable_id()) {
                    w.violate("wrong-connection-registered", "map", format!("after {ops:?}: the connection registered for {} is not c{k}", w.pname(p)));
                }
            }
            for (k, c) in conns.iter().enumerate() {
                let is_closed = c.close_reason().is_some();
                if is_closed != closed.contains(&k) {
                    w.violate(
                        if is_closed { "live-connection-closed" } else { "unregistered-connection-left-open" },
                        "connections",
                        format!("after {ops:?}: c{k} closed = {is_closed}, model closed = {}", closed.contains(&k)),
                    );
                }
            }
            let now = w.now_ns();
            for (i, (s, from)) in subs.iter_mut().enumerate() {
                s.drain(now);
                // events published by this operation, compared by kind and peer (the property does
                // not fix the reason, and a replacement may be announced as Lost+New or not at all)
                let kind = |e: &PeerEvent| match e {
                    PeerEvent::NewPeer(p) => (true, *p),
                    PeerEvent::LostPeer(p, _) => (false, *p),
                };
                let got: Vec<(bool, PeerId)> = s.history[s.history.len() - (s.history.len() - seen_before[i].min(s.history.len()))..].iter().map(|e| kind(&e.ev)).collect();
                let want: Vec<(bool, PeerId)> = model_events[model_before.max(*from)..].iter().map(kind).collect();
                let replacement = want.len() == 2 && !want[0].0 && want[1].0 && want[0].1 == want[1].1;
                let ok = got == want || (replacement && got.is_empty());
                if !ok {
                    w.violate(if want.is_empty() { "spurious-event" } else { "event-sequence-differs-from-model" }, "subscription", format!("after {ops:?}: the last operation published {got:?} to subscription {i}, the reference model {want:?} (true = NewPeer)"));
                }
                if let Some(e) = &s.alternation_error {
                    w.violate("event-alternation", "subscription", e.clone());
                }
                if s.listed != model_listed {
                    w.violate("events-do-not-reproduce-listing", "subscription", format!("after {ops:?}: subscription {i} reconstructs {:?}", s.listed.iter().map(|p| w.pname(p)).collect::<Vec<_>>()));
                }
            }
            if w.violated() {
                break;
            }
        }
        if interesting {
            w.mark_overlap();
        }
        w.sample("ops", json!({"connections": conns.iter().map(|c| format!("{}{}", w.pname(&c.peer_id()), if inbound(c) { "<" } else { ">" })).collect::<Vec<_>>(), "ops": ops}));
        let out = w.finish();
        drop(remote_handles);
        own.ep.close();
        for rm in &remotes {
            rm.ep.close();
        }
        out
    })
}

fn run_c05(input: RunInput) -> ScenFuture {
    Box::pin(async move {
        let w = World::new(&input, LinkCfg::clean(200, 2_000));
        let a = endpoint(&w, 1);
        let b = endpoint(&w, 2);
        // pure table, from both sides
        let io = [ConnectionOrigin::Inbound, ConnectionOrigin::Outbound];
        for (own, remote) in [(&a.id, &b.id), (&b.id, &a.id)] {
            for e in io {
                for n in io {
                    let got = tie_break(own, remote, e, n);
                    let want = tie_break_drop_existing(&own.0, &remote.0, e == ConnectionOrigin::Inbound, n == ConnectionOrigin::Inbound);
                    w.check(got == want, "tie-break-table", format!("existing={e:?} new={n:?} own_greater={}", own > remote), || format!("tie-break returned {got}, reference rule says {want}"));
                }
            }
        }
        // real connections, every arrival order at each side
        let mut cases = Vec::new();
        for order_a in [0, 1] {
            for order_b in [0, 1] {
                let (c1a, c1b) = match connect(&a, &b).await {
                    Ok(x) => x,
                    Err(e) => {
                        w.harness_error(e);
                        return w.finish();
                    }
                };
                let (c2b, c2a) = match connect(&b, &a).await {
                    Ok(x) => x,
                    Err(e) => {
                        w.harness_error(e);
                        return w.finish();
                    }
                };
                let pa = DirectPeers::new(64);
                let pb = DirectPeers::new(64);
                let at_a = if order_a == 0 { [&c1a, &c2a] } else { [&c2a, &c1a] };
                let at_b = if order_b == 0 { [&c1b, &c2b] } else { [&c2b, &c1b] };
                for c in at_a {
                    let _ = pa.add(&a.id, c);
                }
                for c in at_b {
                    let _ = pb.add(&b.id, c);
                }
                // which connection does each side keep? 1 = dialed by a, 2 = dialed by b
                let keep_a = if pa.get_stable_id(&b.id) == Some(c1a.stable_id()) { 1 } else if pa.get_stable_id(&b.id) == Some(c2a.stable_id()) { 2 } else { 0 };
                let keep_b = if pb.get_stable_id(&a.id) == Some(c1b.stable_id()) { 1 } else if pb.get_stable_id(&a.id) == Some(c2b.stable_id()) { 2 } else { 0 };
                let want = if a.id > b.id { 1 } else { 2 };
                let key = format!("order_a={order_a} order_b={order_b} a_greater={}", a.id > b.id);
                w.event(format!("{key}:{keep_a}{keep_b}"));
                cases.push(json!({"order_at_a": order_a, "order_at_b": order_b, "a_greater": a.id > b.id, "kept_at_a": keep_a, "kept_at_b": keep_b}));
                w.check(keep_a == keep_b && keep_a != 0, "sides-keep-different-connections", key.clone(), || format!("a keeps the connection dialed by {keep_a}, b keeps the one dialed by {keep_b} (1 = a, 2 = b)"));
                w.check(keep_a == want, "survivor-depends-on-arrival-order", key.clone(), || format!("a keeps {keep_a}, expected the connection dialed by the greater PeerId ({want})"));
                // the loser is closed on the side that dropped it, the winner is open
                let (win_a, lose_a) = if keep_a == 1 { (&c1a, &c2a) } else { (&c2a, &c1a) };
                let (win_b, lose_b) = if keep_b == 1 { (&c1b, &c2b) } else { (&c2b, &c1b) };
                w.check(win_a.close_reason().is_none() && win_b.close_reason().is_none(), "winner-closed", key.clone(), || "the surviving connection was closed".into());
                w.check(lose_a.close_reason().is_some() && lose_b.close_reason().is_some(), "loser-left-open", key.clone(), || "the dropped connection was not closed".into());
                for p in [&pa, &pb] {
                    w.check(p.peers().len() == 1, "duplicate-listing", key.clone(), || format!("{} peers listed", p.peers().len()));
                }
            }
        }
        w.mark_overlap();
        w.sample("cases", json!(cases));
        let out = w.finish();
        a.ep.close();
        b.ep.close();
        out
    })
}
