//! Helpers shared by scenarios.

use crate::world::{Node, World};
use anemo::{PeerId, Request, Response};
use bytes::Bytes;
use std::time::Duration;

pub async fn sleep_ms(ms: u64) {
    tokio::time::sleep(Duration::from_millis(ms)).await;
}

pub async fn sleep_us(us: u64) {
    tokio::time::sleep(Duration::from_micros(us)).await;
}

/// RPC with a harness-side upper bound on virtual time (a hang becomes `Err("hang")`).
pub async fn rpc_bounded(
    node: &Node,
    peer: PeerId,
    req: Request<Bytes>,
    bound: Duration,
) -> Result<Response<Bytes>, String> {
    match tokio::time::timeout(bound, node.net.rpc(peer, req)).await {
        Ok(Ok(r)) => Ok(r),
        Ok(Err(e)) => Err(format!("{e}")),
        Err(_) => Err("hang".into()),
    }
}

/// A small echo probe: `Ok(())` iff the peer answered with the same body.
pub async fn probe(world: &World, node: &Node, peer: PeerId, tag: u64, bound: Duration) -> Result<(), String> {
    let body = Bytes::from(format!("probe-{}-{tag}", world.seed).into_bytes());
    let r = rpc_bounded(node, peer, Request::new(body.clone()), bound).await?;
    if r.body() == &body {
        Ok(())
    } else {
        Err("wrong body".into())
    }
}

/// Spawn a task that copies a node's peer events into the semantic event log.
pub fn watch_events(w: &World, node: &Node) {
    let Ok((mut rx, _)) = node.net.subscribe() else { return };
    let w = w.clone();
    let name = format!("n{}", node.idx);
    tokio::spawn(async move {
        loop {
            match rx.recv().await {
                Ok(anemo::types::PeerEvent::NewPeer(p)) => w.event(format!("{name}:New({})", w.pname(&p))),
                Ok(anemo::types::PeerEvent::LostPeer(p, r)) => w.event(format!("{name}:Lost({},{r:?})", w.pname(&p))),
                Err(tokio::sync::broadcast::error::RecvError::Lagged(_)) => w.harness_error("event watcher lagged"),
                Err(_) => break,
            }
        }
    });
}
