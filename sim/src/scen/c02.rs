//! C02 — RPC delivery integrity, pairing and at-most-once handling.

use super::common::*;
use crate::fabric::LinkCfg;
use crate::runner::{ScenFuture, Scenario};
use crate::world::*;
use anemo::types::response::StatusCode;
use anemo::{Request, Response};
use bytes::Bytes;
use rand::Rng;
use serde_json::json;
use std::collections::BTreeMap;
use std::sync::{Arc, Mutex};
use std::time::Duration;

pub static RPC: Scenario = Scenario {
    id: "C02",
    name: "c02-rpc-integrity",
    run,
    quick_runs: 12000,
    thorough_runs: 400_000,
    rule: "one run = 2-3 real Networks, every node issuing concurrent RPCs (up to 64 in flight, beyond the stream limit in some runs) in both directions with PRNG content (route, header map, body size class 0..1 MiB, thorough 4 MiB), PRNG handler durations and a PRNG fault schedule (loss, duplication, reordering, delay spikes, partitions, stalls); separate fault-free configuration with the strict oracle; distinct = distinct order signature over (rpc started, handler started, rpc finished+outcome) events; non-trivial = a fault fired or RPCs overlapped",
    real: super::REAL_NET,
    stubbed: super::STUB_NET,
};

const STATUSES: [StatusCode; 8] = [
    StatusCode::Success,
    StatusCode::BadRequest,
    StatusCode::NotFound,
    StatusCode::RequestTimeout,
    StatusCode::TooManyRequests,
    StatusCode::InternalServerError,
    StatusCode::VersionNotSupported,
    StatusCode::Unknown,
];

pub fn body_for(seed: u64, nonce: u64, len: usize, salt: u64) -> Bytes {
    let k = crate::choice::splitmix(seed ^ nonce.wrapping_mul(0x1F3D_5B79) ^ salt);
    let mut v = Vec::with_capacity(len);
    let mut x = k;
    while v.len() + 8 <= len {
        x = x.wrapping_mul(6364136223846793005).wrapping_add(1442695040888963407);
        v.extend_from_slice(&(x ^ (v.len() as u64)).to_le_bytes());
    }
    while v.len() < len {
        v.push((k >> (v.len() % 8 * 8)) as u8 ^ v.len() as u8);
    }
    Bytes::from(v)
}

fn size_class(r: &mut impl Rng, tier: Tier, big_ok: bool) -> usize {
    let c = r.gen_range(0..100);
    match c {
        0..=9 => 0,
        10..=19 => 1,
        20..=44 => r.gen_range(2..400),
        45..=59 => r.gen_range(1100..1500), // around one datagram
        60..=74 => r.gen_range(3000..20_000),
        75..=89 => 65_536 + r.gen_range(0..3) - 1,
        90..=96 => r.gen_range(100_000..300_000),
        _ => {
            if !big_ok {
                r.gen_range(20_000..70_000)
            } else if tier == Tier::Thorough && r.gen_bool(0.3) {
                4 << 20
            } else {
                1 << 20
            }
        }
    }
}

fn rand_string(r: &mut impl Rng, max: usize) -> String {
    const ALPHABET: &[&str] = &["a", "b", "/", "-", "_", "0", "9", " ", "é", "λ", "中", "🦀", "\u{0}", "\n", ":", "%"];
    let n = r.gen_range(0..=max);
    (0..n).map(|_| ALPHABET[r.gen_range(0..ALPHABET.len())]).collect()
}

pub struct ReqSpec {
    pub route: String,
    pub headers: BTreeMap<String, String>,
    pub body: Bytes,
}

/// The request for (seed, nonce): a pure function, so the oracle can regenerate it.
pub fn gen_request(seed: u64, nonce: u64, tier: Tier, big_ok: bool, routed: bool) -> ReqSpec {
    let mut r = Choice::new(seed).stream(&format!("req:{nonce}"));
    let route = match r.gen_range(0..6) {
        0 => "/".to_string(),
        1 => String::new(),
        2 => "/svc/Method".to_string(),
        3 => rand_string(&mut r, 12),
        4 => format!("/{}", rand_string(&mut r, 40)),
        _ => "x".repeat(r.gen_range(100..2000)),
    };
    // callee behind a Router (routes /svc/Method, /r/:a, /w/*rest): mostly routes that match,
    // plus near misses that must be answered NotFound without reaching any handler
    let route = if routed {
        let seg = |r: &mut rand::rngs::StdRng| -> String { (0..r.gen_range(1..10)).map(|_| (b'a' + r.gen_range(0..26)) as char).collect() };
        match r.gen_range(0..10) {
            0 | 1 => "/svc/Method".to_string(),
            2 | 3 => format!("/r/{}", seg(&mut r)),
            4 | 5 => format!("/w/{}/{}", seg(&mut r), seg(&mut r)),
            6 => "/svc/Method/".to_string(),
            7 => format!("/r/{}/", seg(&mut r)),
            8 => ["/svc/method", "/svc", "/nope", "//svc/Method", "/svc/Method/x"][r.gen_range(0..5)].to_string(),
            _ => route,
        }
    } else {
        route
    };
    let mut headers = BTreeMap::new();
    let n = if r.gen_bool(0.3) { 0 } else { r.gen_range(0..=8) };
    for i in 0..n {
        let k = match r.gen_range(0..4) {
            0 => format!("k{i}"),
            1 => format!("K-{}", rand_string(&mut r, 6)),
            2 => String::new(),
            _ => format!("h{}{}", i, "y".repeat(r.gen_range(0..200))),
        };
        let v = match r.gen_range(0..3) {
            0 => String::new(),
            1 => rand_string(&mut r, 16),
            _ => "v".repeat(r.gen_range(0..3000)),
        };
        headers.insert(k, v);
    }
    headers.insert("x-nonce".into(), nonce.to_string());
    let len = size_class(&mut r, tier, big_ok);
    // header names that mean something elsewhere (an HTTP gateway forwards them): to anemo they
    // are headers like any other and arrive as sent, whatever their values say about the message
    let mut rh = Choice::new(seed).stream(&format!("req-http-headers:{nonce}"));
    if rh.gen_bool(0.15) {
        headers.insert("content-length".into(), if rh.gen_bool(0.7) { len.to_string() } else { rh.gen_range(0..5000u32).to_string() });
    }
    if rh.gen_bool(0.05) {
        headers.insert("transfer-encoding".into(), "chunked".into());
    }
    ReqSpec {
        route,
        headers,
        body: body_for(seed, nonce, len, 0xAA),
    }
}

/// Reference for the routes mounted in routed runs.
pub fn route_matches(route: &str) -> bool {
    if route == "/svc/Method" {
        return true;
    }
    if let Some(rest) = route.strip_prefix("/r/") {
        return !rest.is_empty() && !rest.contains('/');
    }
    if let Some(rest) = route.strip_prefix("/w/") {
        return !rest.is_empty();
    }
    false
}

pub struct RespSpec {
    pub status: StatusCode,
    pub headers: BTreeMap<String, String>,
    pub body: Bytes,
    pub delay_ms: u64,
    /// the handler is CPU-bound for this long (own choice stream, so that nothing else shifts)
    pub hold_ms: u64,
}

pub fn gen_response(seed: u64, nonce: u64, tier: Tier, big_ok: bool) -> RespSpec {
    let mut r = Choice::new(seed).stream(&format!("resp:{nonce}"));
    let status = STATUSES[if r.gen_bool(0.6) { 0 } else { r.gen_range(0..STATUSES.len()) }];
    let mut headers = BTreeMap::new();
    for i in 0..r.gen_range(0..4) {
        headers.insert(format!("r{i}"), rand_string(&mut r, 20));
    }
    headers.insert("x-echo-nonce".into(), nonce.to_string());
    let len = size_class(&mut r, tier, big_ok);
    let delay_ms = match r.gen_range(0..4) {
        0 => 0,
        1 => r.gen_range(0..5),
        2 => r.gen_range(0..60),
        _ => r.gen_range(0..250),
    };
    let mut rh = Choice::new(seed).stream(&format!("resp-hold:{nonce}"));
    let hold_ms = if rh.gen_range(0..12) == 0 { rh.gen_range(1..300) } else { 0 };
    // (the documented SetResponseHeaderLayer example sets exactly this header)
    let mut rc = Choice::new(seed).stream(&format!("resp-http-headers:{nonce}"));
    if rc.gen_bool(0.15) {
        headers.insert("content-length".into(), if rc.gen_bool(0.7) { len.to_string() } else { rc.gen_range(0..5000u32).to_string() });
    }
    RespSpec {
        status,
        headers,
        body: body_for(seed, nonce, len, 0xBB),
        delay_ms,
        hold_ms,
    }
}

use crate::choice::Choice;

pub fn build_request(s: &ReqSpec) -> Request<Bytes> {
    let mut req = Request::new(s.body.clone()).with_route(s.route.clone());
    for (k, v) in &s.headers {
        req = req.with_header(k.clone(), v.clone());
    }
    // some requests are not freshly built: they carry what an *inbound* request carries that the
    // application forwards to another peer as it is (the identity of whoever sent it to us and the
    // direction it travelled). None of it may be mistaken for something about this call.
    if s.body.len() % 4 == 1 {
        req = req.with_extension(anemo::PeerId([0xEE; 32])).with_extension(anemo::Direction::Inbound);
    }
    req.with_extension(LocalMarker(7))
}

pub fn plan_for(seed: u64, tier: Tier, big_ok: bool) -> PlanFn {
    Arc::new(move |req: &Request<Bytes>| {
        let nonce: u64 = req.headers().get("x-nonce").and_then(|v| v.parse().ok()).unwrap_or(u64::MAX);
        if nonce == u64::MAX {
            return Plan {
                delay: Duration::ZERO,
                response: Response::new(req.body().clone()),
                hold: Duration::ZERO,
            };
        }
        let spec = gen_response(seed, nonce, tier, big_ok);
        let mut resp = Response::new(spec.body).with_status(spec.status);
        for (k, v) in spec.headers {
            resp = resp.with_header(k, v);
        }
        Plan {
            delay: Duration::from_millis(spec.delay_ms),
            response: resp.with_extension(LocalMarker(9)),
            hold: Duration::from_millis(spec.hold_ms),
        }
    })
}

#[derive(Clone, Debug)]
struct Outcome {
    nonce: u64,
    caller: usize,
    callee: usize,
    result: Result<(), String>,
    started_ns: u64,
    finished_ns: u64,
}

fn run(input: RunInput) -> ScenFuture {
    Box::pin(async move {
        let w = World::new(&input, LinkCfg::clean(200, 5_000));
        let tier = w.tier;
        let faulty = w.flag("faulty", 0.65);
        let n_nodes = w.param("nodes", 2, 3) as usize;
        let lat_max = w.param("lat_max_us", 300, 30_000) as u64;
        let idle_ms = w.param("idle_ms", 3000, 8000) as u64;
        let ka_ms = w.param("keepalive_ms", 400, idle_ms as i64 / 3) as u64;
        let max_bidi = w.param("max_bidi_streams", 2, 100) as u64;
        let n_rpcs = w.param("rpcs", 1, if tier == Tier::Quick { 48 } else { 96 }) as u64;
        let spread_ms = w.param("spread_ms", 0, 400) as u64;
        let big_ok = w.flag("big_messages", 0.25);
        let n_rpcs = if big_ok { n_rpcs.min(12) } else { n_rpcs };
        let mut cfg = base_config(idle_ms, Some(ka_ms));
        cfg.quic.as_mut().unwrap().max_concurrent_bidi_streams = Some(max_bidi);
        cfg.connect_timeout_ms = Some(3000);
        // request deadlines far beyond anything that happens in a run: they must not change what
        // is delivered (headers included)
        let huge = w.flag("huge_default_timeouts", 0.3);
        if huge {
            cfg.outbound_request_timeout_ms = Some(3_600_000);
            cfg.inbound_request_timeout_ms = Some(3_600_000);
        }
        // ... or a serving-side deadline in the range of the handler durations: a handler that is
        // cut off produces nothing and the caller gets the timeout layer's RequestTimeout; a handler
        // that did produce its response - however close to the deadline, however long it was
        // CPU-bound across it - must see exactly that response delivered
        let short_inbound = !huge && w.flag("short_inbound_timeout", 0.25);
        if short_inbound {
            cfg.inbound_request_timeout_ms = Some(w.param("inbound_timeout_ms", 20, 300) as u64);
        }
        // a frame limit on every node, smaller than some of the generated messages: such an RPC
        // fails (C15) - and must still be delivered to a handler at most once
        let frame_limit = w.flag("frame_limit", 0.3).then(|| w.param("max_frame_size", 3_000, 300_000) as usize);
        cfg.max_frame_size = frame_limit;
        // flow-control knobs: small windows force the blocked-on-credit paths of every stream
        if w.flag("small_windows", 0.35) {
            let q = cfg.quic.as_mut().unwrap();
            q.stream_receive_window = Some(w.param("stream_receive_window", 2_000, 100_000) as u64);
            q.receive_window = Some(w.param("receive_window", 8_000, 400_000) as u64);
            q.send_window = Some(w.param("send_window", 8_000, 400_000) as u64);
        }

        // the callee's service mounted behind anemo's Router: the handler still gets exactly the
        // route the caller sent, and a route that matches nothing reaches no handler
        let routed = w.flag("callee_behind_router", 0.3);
        let mut nodes = Vec::new();
        let mut handles = Vec::new();
        for i in 0..n_nodes {
            let svc = Svc::new(&w, plan_for(w.seed, tier, big_ok));
            handles.push(svc.handle());
            let spec = w.spec(i as u8 + 1, cfg.clone());
            let node = if routed {
                let router = anemo::Router::new().route("/svc/Method", svc.clone()).route("/r/:a", svc.clone()).route("/w/*rest", svc);
                w.start_node(spec, router)
            } else {
                w.start_node(spec, svc)
            };
            nodes.push(Arc::new(node.unwrap()));
            watch_events(&w, nodes.last().unwrap());
        }
        // establish a full mesh before faults start (connection establishment is C03/C05/C09's subject)
        for i in 0..n_nodes {
            for j in (i + 1)..n_nodes {
                let (a, b) = if w.rng(&format!("wl:dir{i}{j}")).gen_bool(0.5) { (i, j) } else { (j, i) };
                if nodes[a].net.connect_with_peer_id(nodes[b].addr, nodes[b].peer_id).await.is_err() {
                    w.harness_error("setup connect failed on a clean network");
                }
            }
        }
        // the listener registers a connection one round trip after the dialer's call returned
        sleep_ms(50).await;
        // one maintainer per node re-dials lost peers (a single dial in flight per node), so the
        // workload keeps creating in-flight state after a long partition
        let mut maintainers = Vec::new();
        for i in 0..n_nodes {
            let nodes2 = nodes.clone();
            maintainers.push(tokio::spawn(async move {
                loop {
                    sleep_ms(300).await;
                    for j in 0..nodes2.len() {
                        if j > i && nodes2[i].net.peer(nodes2[j].peer_id).is_none() {
                            let _ = nodes2[i].net.connect_with_peer_id(nodes2[j].addr, nodes2[j].peer_id).await;
                        }
                    }
                }
            }));
        }
        let mut link = LinkCfg::clean(200, lat_max);
        if faulty {
            link.drop = w.param("drop_pct", 0, 20) as f64 / 100.0;
            link.dup = w.param("dup_pct", 0, 10) as f64 / 100.0;
            link.spike = w.param("spike_pct", 0, 3) as f64 / 100.0;
            link.spike_max_ms = 1500;
            link.corrupt = w.param("corrupt_pct", 0, 2) as f64 / 100.0;
            link.truncate = w.param("truncate_pct", 0, 2) as f64 / 100.0;
        }
        w.fabric.set_default_link(link);

        // fault schedule (partitions / stalls), only in faulty configurations
        let n_sched = if faulty { w.param("sched_faults", 0, 3) } else { 0 };
        let sched = {
            let w = w.clone();
            let addrs: Vec<_> = nodes.iter().map(|n| n.addr).collect();
            async move {
                let mut r = w.rng("fault:sched");
                for _ in 0..n_sched {
                    sleep_ms(r.gen_range(0..(spread_ms + 200))).await;
                    let a = addrs[r.gen_range(0..addrs.len())];
                    let b = addrs[r.gen_range(0..addrs.len())];
                    let long = r.gen_bool(0.25);
                    let dur = if long { idle_ms + ka_ms + r.gen_range(0..2000) } else { r.gen_range(20..(idle_ms / 3)) };
                    match r.gen_range(0..4) {
                        3 => {
                            // buggify: the socket's send buffer is full for a while
                            let d = r.gen_range(5..400);
                            w.fabric.block_sends(a, w.now_ns() + d * 1_000_000);
                            w.event("send-wouldblock-window");
                            sleep_ms(d).await;
                        }
                        0 if a != b => {
                            w.fabric.partition(a, b);
                            w.event(format!("partition {}", if long { "long" } else { "short" }));
                            sleep_ms(dur).await;
                            w.fabric.heal(a, b);
                        }
                        1 if a != b => {
                            w.fabric.block(a, b);
                            w.event(format!("blackhole {}", if long { "long" } else { "short" }));
                            sleep_ms(dur).await;
                            w.fabric.unblock(a, b);
                        }
                        _ => {
                            let until = w.now_ns() + dur.min(idle_ms / 2) * 1_000_000;
                            w.fabric.stall(a, until);
                            w.event("stall");
                            sleep_ms(dur.min(idle_ms / 2)).await;
                        }
                    }
                }
            }
        };

        let outcomes: Arc<Mutex<Vec<Outcome>>> = Default::default();
        let mut tasks = Vec::new();
        let mut wl = w.rng("wl:plan");
        for nonce in 0..n_rpcs {
            let caller = wl.gen_range(0..n_nodes);
            let mut callee = wl.gen_range(0..n_nodes);
            if callee == caller {
                callee = (callee + 1) % n_nodes;
            }
            let start_ms = if spread_ms == 0 { 0 } else { wl.gen_range(0..=spread_ms) };
            let api = wl.gen_range(0..3);
            let (w2, outcomes, nodes2) = (w.clone(), outcomes.clone(), nodes.clone());
            let callee_log = handles[callee].clone();
            tasks.push(tokio::spawn(async move {
                sleep_ms(start_ms).await;
                let spec = gen_request(w2.seed, nonce, w2.tier, big_ok, routed);
                let unrouted = routed && !route_matches(&spec.route);
                let req = build_request(&spec);
                let me = &nodes2[caller];
                let target = &nodes2[callee];
                let started_ns = w2.now_ns();
                w2.event(format!("s{nonce}"));
                let res = match api {
                    0 => me.net.rpc(target.peer_id, req).await,
                    1 => match me.net.peer(target.peer_id) {
                        Some(mut p) => p.rpc(req).await,
                        None => Err(anyhow::anyhow!("not connected")),
                    },
                    _ => match me.net.peer(target.peer_id) {
                        Some(p) => tower::ServiceExt::oneshot(p, req).await,
                        None => Err(anyhow::anyhow!("not connected")),
                    },
                };
                let expect = gen_response(w2.seed, nonce, w2.tier, big_ok);
                let result = match res {
                    Ok(resp) if unrouted => {
                        if resp.status() != StatusCode::NotFound {
                            w2.violate("unrouted-request-answered-by-a-handler", "rpc", format!("nonce {nonce}: route {:?} matches no mounted route but the response has status {:?}", spec.route, resp.status()));
                        }
                        w2.probe("unrouted-request");
                        Ok(())
                    }
                    Ok(resp) if short_inbound && resp.status() == StatusCode::RequestTimeout && resp.body().is_empty() && resp.headers().is_empty() => {
                        // the serving side's timeout reply: legitimate only if the handler was cut
                        // off, i.e. never got to produce its response
                        let produced = callee_log.seen().iter().any(|s| s.nonce == Some(nonce) && s.completed_at_ns.is_some());
                        if produced {
                            w2.violate("handler-response-replaced-by-timeout-reply", "rpc", format!("nonce {nonce}: the handler ran to completion and produced its response, yet the caller received the timeout layer's RequestTimeout"));
                        }
                        w2.probe("cut-off-by-inbound-timeout");
                        Ok(())
                    }
                    Ok(resp) => {
                        let hdrs: BTreeMap<String, String> = resp.headers().iter().map(|(k, v)| (k.clone(), v.clone())).collect();
                        if resp.status() != expect.status {
                            w2.violate("response-status-mismatch", "rpc", format!("nonce {nonce}: status {:?} != {:?}", resp.status(), expect.status));
                        } else if hdrs != expect.headers {
                            w2.violate("response-headers-mismatch", "rpc", format!("nonce {nonce}: headers {:?} != {:?}", hdrs, expect.headers));
                        } else if resp.body() != &expect.body {
                            w2.violate("response-body-mismatch", "rpc", format!("nonce {nonce}: body len {} != {} or content differs", resp.body().len(), expect.body.len()));
                        } else if resp.peer_id() != Some(&target.peer_id) {
                            w2.violate("response-peer-id-mismatch", "rpc", format!("nonce {nonce}: response attributed to {:?}", resp.peer_id().map(short)));
                        } else if resp.extensions().get::<LocalMarker>().is_some() {
                            w2.violate("extension-travelled", "response", format!("nonce {nonce}: handler-side extension arrived at the caller"));
                        }
                        Ok(())
                    }
                    Err(e) => Err(format!("{e:#}")),
                };
                w2.event(format!("f{nonce}:{}", if result.is_ok() { "ok" } else { "err" }));
                outcomes.lock().unwrap().push(Outcome {
                    nonce,
                    caller,
                    callee,
                    result,
                    started_ns,
                    finished_ns: w2.now_ns(),
                });
            }));
        }
        w.mark_overlap();
        let sched_task = tokio::spawn(sched);
        // tail: after the last fault, every RPC must have resolved within a bound derived from
        // the configured timeouts (a live connection recovers within a PTO <= idle; a dead one is
        // detected within idle + keep-alive)
        let _ = sched_task.await;
        w.fabric.heal_all();
        w.fabric.set_faults_enabled(false);
        // Liveness after faults stop is "progress within a bound", never "done within a bound":
        // a window without a single completion while RPCs are pending is a hang.
        let window = Duration::from_millis(spread_ms + 2 * (idle_ms + ka_ms) + 10_000);
        let mut all = futures::future::join_all(tasks);
        let mut waited = 0u32;
        loop {
            let before = outcomes.lock().unwrap().len();
            let bytes_before = w.fabric.lock().bytes;
            match tokio::time::timeout(window, &mut all).await {
                Ok(rs) => {
                    if rs.iter().any(|r| r.is_err()) {
                        w.violate("client-task-panicked", "rpc", "an RPC call panicked");
                    }
                    break;
                }
                Err(_) => {
                    let done = outcomes.lock().unwrap().len();
                    waited += 1;
                    // progress = an RPC completed, or payload is still moving (a multi-megabyte
                    // transfer through a shrunken congestion window takes many windows; keep-alives
                    // alone are far below the threshold)
                    let moved = w.fabric.lock().bytes - bytes_before;
                    if done == before && moved < 64 * 1024 {
                        w.violate("rpc-hang", "tail", format!("{} of {n_rpcs} RPCs pending, none completed and only {moved} bytes moved during {window:?} after faults stopped", n_rpcs as usize - done));
                        break;
                    }
                    if waited > 400 {
                        w.probe("slow-run-cap-reached");
                        break;
                    }
                }
            }
        }
        // oracle over the recorded history
        let outcomes = outcomes.lock().unwrap().clone();
        let mut delivered: BTreeMap<u64, usize> = BTreeMap::new();
        for (i, h) in handles.iter().enumerate() {
            for s in h.seen() {
                let Some(nonce) = s.nonce else { continue };
                *delivered.entry(nonce).or_default() += 1;
                let spec = gen_request(w.seed, nonce, tier, big_ok, routed);
                if routed && !route_matches(&spec.route) {
                    w.violate("unrouted-request-reached-a-handler", "handler", format!("nonce {nonce}: sent route {:?} matches no mounted route, yet a handler ran for it (with route {:?})", spec.route, s.route));
                }
                let Some(o) = outcomes.iter().find(|o| o.nonce == nonce) else {
                    // still pending (only after an rpc-hang verdict)
                    continue;
                };
                if o.callee != i {
                    w.violate("request-delivered-to-wrong-node", "handler", format!("nonce {nonce} sent to n{} was handled by n{}", o.callee + 1, i + 1));
                }
                if s.peer != Some(nodes[o.caller].peer_id) {
                    w.violate("request-attributed-to-wrong-peer", "handler", format!("nonce {nonce} from n{} attributed to {:?}", o.caller + 1, s.peer.as_ref().map(short)));
                }
                if s.route != spec.route {
                    w.violate("request-route-mismatch", "handler", format!("nonce {nonce}: route {:?} != {:?}", s.route, spec.route));
                }
                if s.headers != spec.headers {
                    w.violate("request-headers-mismatch", "handler", format!("nonce {nonce}: headers differ: got {} entries, sent {}", s.headers.len(), spec.headers.len()));
                }
                if s.body != spec.body {
                    w.violate("request-body-mismatch", "handler", format!("nonce {nonce}: body len {} vs sent {}", s.body.len(), spec.body.len()));
                }
                if s.had_extension_marker {
                    w.violate("extension-travelled", "request", format!("nonce {nonce}: caller-side extension arrived at the handler"));
                }
            }
        }
        for (nonce, n) in &delivered {
            if *n > 1 {
                w.violate("request-delivered-twice", "handler", format!("nonce {nonce} reached a handler {n} times"));
            }
        }
        let ok = outcomes.iter().filter(|o| o.result.is_ok()).count();
        for o in &outcomes {
            if o.result.is_ok() && !delivered.contains_key(&o.nonce) && !(routed && !route_matches(&gen_request(w.seed, o.nonce, tier, big_ok, routed).route)) {
                w.violate("response-without-handler", "rpc", format!("nonce {} succeeded but no handler ever saw it", o.nonce));
            }
        }
        let total_bytes: u64 = outcomes.iter().map(|o| (gen_request(w.seed, o.nonce, tier, big_ok, routed).body.len() + gen_response(w.seed, o.nonce, tier, big_ok).body.len() + 2_000) as u64).sum();
        let slow_allowance_ms = total_bytes / 2_400 * (2 * lat_max as u64 / 1000 + 1);
        if !faulty {
            for o in &outcomes {
                // with a frame limit, an RPC with an oversized frame fails by design (C15)
                if let (Some(l), Err(_)) = (frame_limit, &o.result) {
                    let rq = gen_request(w.seed, o.nonce, tier, big_ok, routed);
                    let rs = gen_response(w.seed, o.nonce, tier, big_ok);
                    let hq: Vec<(String, String)> = rq.headers.iter().map(|(k, v)| (k.clone(), v.clone())).collect();
                    let hs: Vec<(String, String)> = rs.headers.iter().map(|(k, v)| (k.clone(), v.clone())).collect();
                    let sizes = [crate::model::wire::request_header(&rq.route, &hq).len(), rq.body.len(), crate::model::wire::response_header(200, &hs).len(), rs.body.len()];
                    if sizes.iter().any(|s| *s > l) {
                        w.probe("rpc-refused-by-frame-limit");
                        continue;
                    }
                }
                if let Err(e) = &o.result {
                    w.violate("rpc-failed-without-faults", "rpc", format!("nonce {} n{}>n{} failed on a fault-free network: {e}", o.nonce, o.caller + 1, o.callee + 1));
                    break;
                }
                // (liveness proxy, not a latency promise: under heavy reordering - per-datagram
                // jitter of tens of milliseconds - QUIC's loss detection keeps the congestion window
                // at its minimum of two packets per round trip, and everything sent in the run
                // shares that; thorough-tier seed 18199476129760249185 moved 12 MB at 160 KB/s)
                let took_ms = (o.finished_ns - o.started_ns) / 1_000_000;
                if took_ms > 60_000 + slow_allowance_ms {
                    w.violate("rpc-slow-without-faults", "rpc", format!("nonce {} took {took_ms} ms of virtual time", o.nonce));
                }
            }
        }
        w.probe_n("rpcs-ok", ok as u64);
        w.probe_n("rpcs-err", (outcomes.len() - ok) as u64);
        if n_rpcs > max_bidi { w.probe("in-flight-beyond-stream-limit"); }
        w.sample("workload", json!({"nodes": n_nodes, "rpcs": n_rpcs, "ok": ok, "faulty": faulty,
            "first": outcomes.iter().take(6).map(|o| json!({"nonce": o.nonce, "from": o.caller + 1, "to": o.callee + 1, "ok": o.result.is_ok(), "ms": (o.finished_ns - o.started_ns) / 1_000_000})).collect::<Vec<_>>()}));
        for m in maintainers { m.abort(); }
        let out = w.finish();
        drop(nodes);
        out
    })
}
