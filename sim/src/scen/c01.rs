//! C01 — peer identity is cryptographically authenticated.

use super::common::*;
use crate::adversary::*;
use crate::fabric::LinkCfg;
use crate::model::wire;
use crate::runner::{ScenFuture, Scenario};
use crate::world::*;
use anemo::types::PeerEvent;
use anemo::{PeerId, Request};
use bytes::Bytes;
use rand::Rng;
use rustls::pki_types::CertificateDer;
use serde_json::json;
use std::collections::BTreeSet;
use std::sync::Arc;
use std::time::Duration;

pub static IDENTITY: Scenario = Scenario {
    id: "C01",
    name: "c01-adversarial-handshakes",
    run,
    quick_runs: 12_000,
    thorough_runs: 150_000,
    rule: "one run = honest Network H (+ honest client P, + honest X online or offline) and a raw QUIC adversary holding only key K' making 1-6 handshake attempts, each with a PRNG role (dials H / is dialed by H plainly, expecting X, expecting K') and certificate strategy (replay of X's certificate, X's SPKI re-signed with K', own certificate [control], expired / not-yet-valid, no certificate, chains [own,X] and [X,own], single-byte mutation of own or of X's certificate), under PRNG loss/duplication/corruption during handshakes; distinct = distinct order signature (role, strategy, outcome per attempt); non-trivial = every run (an adversarial handshake always takes place)",
    real: super::REAL_NET,
    stubbed: super::STUB_NET,
};

pub static VERIFIERS: Scenario = Scenario {
    id: "C01",
    name: "c01-verifier-mutations",
    run: run_verifiers,
    quick_runs: 400,
    thorough_runs: 12_000,
    rule: "one run = one key pair and network name; the three real certificate verifiers (through hook H6 wrappers) are called on the valid certificate, on single-byte mutations of it (quick: 120 sampled (offset,value) pairs per run; thorough: every offset with 8 values), on foreign-key, ECDSA-P256, expired and wrong-name certificates; accepted implies the extracted PeerId is the original public key; distinct = distinct (offset, verdict) pairs; non-trivial = mutated or foreign certificate",
    real: &["anemo crypto.rs verifiers (CertVerifier client+server, ExpectedCertVerifier), peer_id_from_certificate", "rustls-webpki, x509-parser, ring"],
    stubbed: &["no network: verifiers called directly through cfg-guarded wrappers"],
};

const STRATEGIES: [&str; 13] = [
    // own key, own valid self-signature, X's identity (as text) as the subject's common name
    "own-with-x-id-as-common-name",
    "own", "replay-x", "x-spki-resigned", "expired", "not-yet-valid", "no-cert", "chain-own-x", "chain-x-own", "mutated-own", "mutated-x",
    // X's certificate with a handshake signature that is junk labelled with a scheme other than Ed25519
    "replay-x-mislabelled-signature",
    // own key, own valid self-signature, X's SubjectPublicKeyInfo bytes inside the issuer/subject name
    "own-with-x-spki-in-name",
];

fn hex(p: &PeerId) -> String {
    format!("{p}")
}

fn run(input: RunInput) -> ScenFuture {
    Box::pin(async move {
        let w = World::new(&input, LinkCfg::clean(200, 8_000));
        let lossy = w.flag("lossy", 0.35);
        let x_online = w.flag("x_online", 0.5);
        let n_attempts = w.param("attempts", 1, 6) as usize;
        let mut cfg = base_config(8_000, Some(2_000));
        cfg.connect_timeout_ms = Some(2_500);
        let svc = Svc::echo(&w);
        let hh = svc.handle();
        let h = Arc::new(w.start_node(w.spec(1, cfg.clone()), svc).unwrap());
        let mut sub = Subscription::new(&h.net).unwrap();
        let p = w.start_node(w.spec(2, cfg.clone()), Svc::echo(&w)).unwrap();
        let kx = w.key_for(3);
        let x_id = public_key(&kx);
        w.name_peer(x_id, "X");
        let x_node = if x_online { Some(w.start_node(w.spec(3, cfg.clone()), Svc::echo(&w)).unwrap()) } else { None };
        let k_adv = w.key_for(9);
        let adv_id = public_key(&k_adv);
        w.name_peer(adv_id, "ADV");
        // ledger: identities whose private key some endpoint of this run holds
        let mut held: BTreeSet<PeerId> = [h.peer_id, p.peer_id, adv_id].into_iter().collect();
        if x_online {
            held.insert(x_id);
        }
        let mut link = LinkCfg::clean(200, 8_000);
        if lossy {
            link.drop = w.param("drop_pct", 1, 15) as f64 / 100.0;
            link.dup = w.param("dup_pct", 0, 8) as f64 / 100.0;
            link.corrupt = w.param("corrupt_pct", 0, 4) as f64 / 100.0;
            link.truncate = w.param("truncate_pct", 0, 3) as f64 / 100.0;
        }
        w.fabric.set_default_link(link);

        // honest traffic: P (and X) call H with bodies that mention other peers' ids
        let _ = p.net.connect_with_peer_id(h.addr, h.peer_id).await;
        if let Some(x) = &x_node {
            let _ = x.net.connect(h.addr).await;
            let _ = rpc_bounded(x, h.peer_id, Request::new(Bytes::from(format!("x-says-i-am-{}", hex(&adv_id)))).with_header("peer-id", hex(&p.peer_id)), Duration::from_secs(5)).await;
        }
        let _ = rpc_bounded(&p, h.peer_id, Request::new(Bytes::from(format!("p-says-i-am-{}", hex(&x_id)))).with_header("peer-id", hex(&x_id)).with_route(format!("/from/{}", hex(&x_id))), Duration::from_secs(5)).await;

        let cert_x = gen_cert(&kx, "sim");
        let cert_own = gen_cert(&k_adv, "sim");
        let mut r = w.rng("adv:attempts");
        let mut samples = Vec::new();
        let mut retired = Vec::new();
        for k in 0..n_attempts {
            let strat = STRATEGIES[r.gen_range(0..STRATEGIES.len())];
            let role = r.gen_range(0..4); // 0 adv dials H; 1 H dials adv; 2 H dials adv expecting X; 3 H dials adv expecting K'
            // (the padded replay next to a second handshake needs many tries to line up: a share of
            // the attempts is given to it)
            let (strat, role) = if r.gen_bool(0.12) { ("replay-x", 0) } else { (strat, role) };
            // a listener always presents a certificate: "no certificate" exists only for a dialer
            let strat = if strat == "no-cert" && role != 0 { "own" } else { strat };
            let mutate = |c: &CertificateDer<'static>, r: &mut rand::rngs::StdRng| {
                let mut b = c.as_ref().to_vec();
                let i = r.gen_range(0..b.len());
                b[i] ^= 1 << r.gen_range(0..8);
                CertificateDer::from(b)
            };
            let chain: Vec<CertificateDer<'static>> = match strat {
                "own" | "no-cert" => vec![cert_own.clone()],
                "replay-x" | "replay-x-mislabelled-signature" => vec![cert_x.clone()],
                "own-with-x-spki-in-name" => vec![gen_cert_embedding_spki(&k_adv, &x_id.0, "sim")],
                "own-with-x-id-as-common-name" => vec![gen_cert_common_name(&k_adv, "sim", &[hex(&x_id), format!("{:?}", x_id), x_id.0.iter().map(|b| format!("{b:02X}")).collect::<String>()][r.gen_range(0..3)])],
                "x-spki-resigned" => vec![gen_cert_spki_signed_by(&kx, &k_adv, "sim")],
                "expired" => vec![gen_cert_validity(&k_adv, "sim", 1990, 2000)],
                "not-yet-valid" => vec![gen_cert_validity(&k_adv, "sim", 3000, 3010)],
                "chain-own-x" => vec![cert_own.clone(), cert_x.clone()],
                "chain-x-own" => vec![cert_x.clone(), cert_own.clone()],
                "mutated-own" => vec![mutate(&cert_own, &mut r)],
                _ => vec![mutate(&cert_x, &mut r)],
            };
            // a replayed certificate followed by padding (further certificates nobody looks at), so
            // that the dialer's Certificate and CertificateVerify messages travel in different
            // datagrams - and a second handshake of the adversary's, with its own certificate and
            // key, under way at the same time: whatever the listener keeps between the two messages
            // of one handshake belongs to that handshake
            let padded = role == 0 && strat == "replay-x";
            let mut padding: Option<CertificateDer<'static>> = None;
            let chain = if padded {
                let mut pad_key = [0u8; 32];
                r.fill(&mut pad_key);
                // (total size of the padding mostly in the range where the first datagram of the
                // flight ends between the two messages; the second handshake carries the same
                // padding behind its own certificate, so its messages are split likewise)
                let target = if r.gen_bool(0.75) { r.gen_range(450..1_050usize) } else { r.gen_range(200..1_700) };
                let mut names: Vec<String> = Vec::new();
                let mut left = target.saturating_sub(190);
                let mut i = 0;
                while left > 8 {
                    let len = left.min(240);
                    let mut s = format!("p{i}");
                    while s.len() < len {
                        s.push('.');
                        s.push_str(&"x".repeat((len - s.len()).min(50)));
                    }
                    s.truncate(len);
                    let s = s.trim_end_matches('.').to_string();
                    left = left.saturating_sub(s.len() + 2);
                    names.push(s);
                    i += 1;
                }
                if names.is_empty() {
                    names.push("p".into());
                }
                let pad = gen_cert_shape(&pad_key, &names, None);
                padding = Some(pad.clone());
                let mut c = chain;
                c.push(pad);
                c
            } else {
                chain
            };
            let mislabel = (strat == "replay-x-mislabelled-signature").then(|| {
                use rustls::SignatureScheme as S;
                [S::ECDSA_NISTP256_SHA256, S::ECDSA_NISTP384_SHA384, S::RSA_PSS_SHA256, S::RSA_PKCS1_SHA256, S::ED448, S::Unknown(0x0909), S::ED25519][r.gen_range(0..7)]
            });
            let adv = adv_endpoint_signing(&w, AdvSpec {
                idx: 9, port: 7100 + k as u16, chain, sign_key: k_adv, present_client_cert: strat != "no-cert",
                idle_ms: 8_000, keep_alive_ms: Some(2_000), max_bidi: 100,
            }, mislabel);
            w.event(format!("attempt {k}: role {role} strategy {strat}"));
            let claim_body = Bytes::from(format!("adv-claims-to-be-{}", hex(&x_id)));
            let outcome: String;
            let mut refuse_first = false;
            if role == 0 {
                let dialed = if padded {
                    let second = adv_endpoint(&w, AdvSpec {
                        idx: 9, port: 7300 + k as u16, chain: vec![cert_own.clone(), padding.clone().unwrap()], sign_key: k_adv, present_client_cert: true,
                        idle_ms: 8_000, keep_alive_ms: Some(2_000), max_bidi: 100,
                    });
                    let off = r.gen_range(0..6_000u64);
                    let (a, b) = tokio::join!(adv.dial(h.addr, "sim", 3_000), async {
                        sleep_us(off).await;
                        second.dial(h.addr, "sim", 3_000).await
                    });
                    if let Ok(c2) = b {
                        c2.close(0u32.into(), b"");
                    }
                    retired.push(second);
                    w.probe("padded-replay-next-to-a-second-handshake");
                    a
                } else {
                    adv.dial(h.addr, "sim", 3_000).await
                };
                match dialed {
                    Ok(c) => {
                        outcome = "admitted".into();
                        // requests whose route, headers and body all claim to come from X
                        if let Ok((mut tx, mut rx)) = c.open_bi().await {
                            let hdrs = vec![("peer-id".to_string(), hex(&x_id)), ("x-forwarded-for".to_string(), hex(&x_id))];
                            let _ = tx.write_all(&wire::encode_request(1, &format!("/from/{}", hex(&x_id)), &hdrs, &claim_body)).await;
                            let _ = tx.finish();
                            let _ = tokio::time::timeout(Duration::from_secs(3), rx.read_to_end(1 << 16)).await;
                        }
                        // H calling the adversary back: the response must be attributed to K'
                        serve_one_claiming(&c, x_id);
                        if let Ok(resp) = rpc_bounded(&h, adv_id, Request::new(Bytes::from_static(b"who-are-you")).with_extension(x_id), Duration::from_secs(3)).await {
                            check_id(&w, resp.peer_id().copied(), adv_id, "response-attributed-to-wrong-identity", "H calls admitted adversary");
                        }
                        sleep_ms(r.gen_range(0..300)).await;
                        c.close(0u32.into(), b"");
                    }
                    Err(e) => outcome = format!("refused({})", e.split(':').next().unwrap_or("")),
                }
            } else {
                // H dials the adversary's address
                // (which may refuse the first attempt outright - CONNECTION_REFUSED at the QUIC
                // level - and answer the next one: whatever a dial does about a refusal, what it
                // expects of whoever answers in the end stays what it was)
                refuse_first = r.gen_bool(0.2);
                let srv = {
                    let adv_ep = adv.ep.clone();
                    let mut refuse = refuse_first;
                    tokio::spawn(async move {
                        while let Some(inc) = adv_ep.accept().await {
                            if refuse {
                                refuse = false;
                                inc.refuse();
                                continue;
                            }
                            if let Ok(c) = inc.await {
                                if let Ok(mut s) = c.open_uni().await {
                                    let _ = s.write_all(&wire::preamble(1)).await;
                                    let _ = s.finish();
                                }
                                let c2 = c.clone();
                                tokio::spawn(async move {
                                    while let Ok((mut tx, mut rx)) = c2.accept_bi().await {
                                        let req_bytes = rx.read_to_end(1 << 16).await.unwrap_or_default();
                                        // (a request whose body says so is answered with an error status whose
                                        // headers claim, in every way a header can, that it comes from X)
                                        let (status, hdrs) = if req_bytes.windows(10).any(|w| w == b"fail-as-x!") {
                                            (400, vec![("peer-id".to_string(), format!("{x_id}")), ("status-origin".to_string(), format!("{x_id}")), ("origin".to_string(), format!("{x_id}")), ("status-message".to_string(), format!("from {x_id}"))])
                                        } else {
                                            (200, vec![("peer-id".to_string(), format!("{x_id}"))])
                                        };
                                        let _ = tx.write_all(&wire::encode_response(1, status, &hdrs, format!("i-am-{x_id}").as_bytes())).await;
                                        let _ = tx.finish();
                                    }
                                });
                            }
                        }
                    })
                };
                // a second plain dial of the same endpoint exercises TLS session resumption (the
                // shared client configuration caches sessions per server name)
                if role == 1 && r.gen_bool(0.5) {
                    if let Ok(pid) = h.net.connect(adv.addr).await {
                        check_id(&w, Some(pid), adv_id, "dial-returned-identity-the-remote-does-not-hold", &format!("first of two dials, strategy {strat}"));
                        let _ = h.net.disconnect(pid);
                        sleep_ms(r.gen_range(0..100)).await;
                        w.probe("repeated-dial(resumption-path)");
                    }
                }
                let res = match role {
                    1 => h.net.connect(adv.addr).await,
                    // (in half of the cases while another dial of H's, naming the identity that really
                    // lives at that address, is in flight: expectations belong to a dial, not to H)
                    2 if r.gen_bool(0.5) => {
                        w.probe("pinned-dials-with-different-expectations-in-flight");
                        let other_delay = r.gen_range(0..3_000u64);
                        let (a, b) = tokio::join!(h.net.connect_with_peer_id(adv.addr, x_id), async {
                            sleep_us(other_delay).await;
                            h.net.connect_with_peer_id(adv.addr, adv_id).await
                        });
                        if let Ok(pid) = &b {
                            check_id(&w, Some(*pid), adv_id, "dial-returned-identity-the-remote-does-not-hold", "pinned dial naming the adversary's own identity");
                        }
                        a
                    }
                    2 => h.net.connect_with_peer_id(adv.addr, x_id).await,
                    _ => h.net.connect_with_peer_id(adv.addr, adv_id).await,
                };
                match res {
                    Ok(pid) => {
                        outcome = format!("dial-ok({})", w.pname(&pid));
                        check_id(&w, Some(pid), adv_id, "dial-returned-identity-the-remote-does-not-hold", &format!("role {role} strategy {strat}"));
                        if let Some(ph) = h.net.peer(pid) {
                            check_id(&w, Some(ph.peer_id()), adv_id, "peer-handle-attributed-to-wrong-identity", &format!("role {role} strategy {strat}"));
                        }
                        if let Ok(resp) = rpc_bounded(&h, pid, Request::new(Bytes::from_static(b"hello")).with_extension(x_id), Duration::from_secs(3)).await {
                            check_id(&w, resp.peer_id().copied(), adv_id, "response-attributed-to-wrong-identity", &format!("role {role} strategy {strat}"));
                        }
                        // ... and through the typed client, whose error values carry an identity too
                        if let Some(peer) = h.net.peer(pid) {
                            let mut typed = anemo::rpc::client::Rpc::new(peer);
                            let call = typed.unary::<Bytes, Bytes, _>(Request::new(Bytes::from_static(b"fail-as-x!")), anemo::rpc::codec::IdentityCodec::new("bytes"));
                            if let Ok(Err(status)) = tokio::time::timeout(Duration::from_secs(3), call).await {
                                if status.status() == anemo::types::response::StatusCode::BadRequest {
                                    check_id(&w, status.peer_id().copied(), adv_id, "response-attributed-to-wrong-identity", &format!("error status through the typed client, role {role} strategy {strat}"));
                                    w.probe("error-status-through-the-typed-client");
                                }
                            }
                        }
                        let _ = h.net.disconnect(pid);
                    }
                    Err(e) => outcome = format!("dial-err({})", if format!("{e:#}").contains("expected") { "pin" } else { "tls" }),
                }
                srv.abort();
            }
            w.event(format!("{role}:{strat}:{outcome}"));
            if samples.len() < 6 {
                samples.push(json!({"role": role, "strategy": strat, "outcome": outcome}));
            }
            // controls against a vacuous pass: with its own valid certificate the adversary is admitted
            if !lossy && strat == "own" && role != 2 && !refuse_first {
                w.check(outcome.starts_with("admitted") || outcome.starts_with("dial-ok"), "control-not-admitted", "own-cert", || format!("role {role}: {outcome}"));
            }
            if role == 2 {
                w.check(!outcome.starts_with("dial-ok"), "expected-identity-not-enforced", strat, || format!("H dialed the adversary expecting X and got {outcome}"));
            }
            if matches!(strat, "replay-x" | "replay-x-mislabelled-signature" | "x-spki-resigned" | "chain-x-own" | "mutated-x" | "no-cert") {
                w.check(!(outcome.starts_with("admitted") || outcome.starts_with("dial-ok")), "forged-certificate-accepted", strat, || format!("role {role}: {outcome}"));
            }
            // (the endpoint stays alive until the end of the run: an endpoint that has forgotten a
            // connection answers late packets for it depending on their - TLS-random - contents)
            retired.push(adv);
            sleep_ms(r.gen_range(0..200)).await;
        }
        w.fabric.set_faults_enabled(false);
        sleep_ms(500).await;
        // ---- an address changes hands: H knows X at its address, X goes away, the adversary (its
        //      own key, its own valid certificate) binds that very address. Whoever H reaches there
        //      now is K', whatever H remembers about the address ----
        let mut x_node = x_node;
        if x_online && !w.violated() && w.flag("address_changes_hands", 0.35) {
            let x = x_node.take().unwrap();
            let x_addr = x.addr;
            let silent = w.flag("old_holder_vanishes_silently", 0.5);
            if let Ok(pid) = h.net.connect(x_addr).await {
                check_id(&w, Some(pid), x_id, "dial-returned-identity-the-remote-does-not-hold", "honest dial of X before the takeover");
                let _ = rpc_bounded(&h, x_id, Request::new(Bytes::from_static(b"hello-x")), Duration::from_secs(3)).await;
                // in part of the runs X vanishes without a word (cut off before it goes down): H
                // still lists X and holds a connection "to that address" when the new holder
                // answers there
                if silent {
                    w.fabric.isolate(x_addr);
                    w.probe("old-holder-still-listed-at-takeover");
                } else {
                    let _ = h.net.disconnect(pid);
                }
            }
            let _ = tokio::time::timeout(Duration::from_secs(30), x.net.shutdown()).await;
            drop(x);
            w.fabric.heal_all();
            sleep_ms(50).await;
            if !w.fabric.is_bound(x_addr) {
                let adv = adv_endpoint(&w, AdvSpec {
                    idx: 3, port: 7000, chain: vec![cert_own.clone()], sign_key: k_adv, present_client_cert: true,
                    idle_ms: 8_000, keep_alive_ms: Some(2_000), max_bidi: 100,
                });
                let srv = {
                    let adv_ep = adv.ep.clone();
                    tokio::spawn(async move {
                        while let Some(inc) = adv_ep.accept().await {
                            if let Ok(c) = inc.await {
                                if let Ok(mut s) = c.open_uni().await {
                                    let _ = s.write_all(&wire::preamble(1)).await;
                                    let _ = s.finish();
                                }
                                serve_one_claiming(&c, x_id);
                            }
                        }
                    })
                };
                let pinned = h.net.connect_with_peer_id(x_addr, x_id).await;
                w.check(pinned.is_err(), "expected-identity-not-enforced", "address-changed-hands", || format!("H dialed X's former address expecting X and got {:?}", pinned.as_ref().map(|p| w.pname(p)).map_err(|e| format!("{e:#}"))));
                match h.net.connect(x_addr).await {
                    Ok(pid) => {
                        check_id(&w, Some(pid), adv_id, "dial-returned-identity-the-remote-does-not-hold", "plain dial of an address that changed hands");
                        // (X that vanished silently is legitimately listed until its connection times out)
                        // (under loss H may still hold a connection of an earlier attempt of the adversary's
                        // whose close was lost: the tie-break then drops the fresh one and the stale one
                        // is reset a moment later - sweep seed 4009)
                        w.check(lossy || h.net.peers().contains(&adv_id) && (silent || !h.net.peers().contains(&x_id)), "listed-identity-nobody-holds", "address-changed-hands", || format!("after dialing X's former address H lists {:?}", h.net.peers().iter().map(|p| w.pname(p)).collect::<Vec<_>>()));
                        if let Ok(resp) = rpc_bounded(&h, pid, Request::new(Bytes::from_static(b"hello")).with_extension(x_id), Duration::from_secs(3)).await {
                            check_id(&w, resp.peer_id().copied(), adv_id, "response-attributed-to-wrong-identity", "address that changed hands");
                        }
                        let _ = h.net.disconnect(pid);
                    }
                    Err(e) => w.violate("control-not-admitted", "address-changed-hands", format!("a plain dial of the adversary at X's former address failed: {e:#}")),
                }
                w.probe("address-changed-hands");
                srv.abort();
                retired.push(adv);
            }
        }
        // ---- ledger oracle over everything H ever attributed ----
        sub.drain(w.now_ns());
        for e in &sub.history {
            let pid = match &e.ev {
                PeerEvent::NewPeer(p) => p,
                PeerEvent::LostPeer(p, _) => p,
            };
            if !held.contains(pid) {
                w.violate("announced-identity-nobody-holds", w.pname(pid), format!("H announced {:?}", e.ev));
            }
        }
        for pid in h.net.peers() {
            if !held.contains(&pid) {
                w.violate("listed-identity-nobody-holds", w.pname(&pid), "H lists an identity whose private key no endpoint holds".to_string());
            }
        }
        for s in hh.seen() {
            let body = String::from_utf8_lossy(&s.body).to_string();
            let expect = if body.starts_with("adv-") { Some(adv_id) } else if body.starts_with("x-") { Some(x_id) } else if body.starts_with("p-") { Some(p.peer_id) } else { None };
            match (s.peer, expect) {
                (None, _) => w.violate("request-without-identity", "handler", "a handler saw a request without PeerId".to_string()),
                (Some(got), Some(want)) if got != want => w.violate("request-attributed-to-wrong-identity", w.pname(&got), format!("request {body:.24} sent by {} was attributed to {}", w.pname(&want), w.pname(&got))),
                (Some(got), _) if !held.contains(&got) => w.violate("request-attributed-to-identity-nobody-holds", w.pname(&got), body),
                _ => {}
            }
        }
        if !x_online {
            let appears = sub.history.iter().any(|e| matches!(&e.ev, PeerEvent::NewPeer(p) | PeerEvent::LostPeer(p, _) if *p == x_id));
            w.check(!appears, "offline-identity-appeared", "X", || "X is offline yet H announced it".into());
        }
        w.mark_overlap();
        w.sample("attempts", json!({"x_online": x_online, "lossy": lossy, "attempts": samples}));
        let out = w.finish();
        drop(retired);
        drop((h, p, x_node));
        out
    })
}

fn check_id(w: &World, got: Option<PeerId>, want: PeerId, class: &str, ctx: &str) {
    if got.map(|g| g.0) != Some(want.0) {
        w.violate(class, got.map(|g| w.pname(&g)).unwrap_or_else(|| "none".into()), format!("{ctx}: attributed {:?}, the endpoint holds only {}", got.map(|g| w.pname(&g)), w.pname(&want)));
    }
}

/// Serve bi streams on an adversary-side connection, answering with a response that claims X.
fn serve_one_claiming(c: &quinn::Connection, x_id: PeerId) {
    let c = c.clone();
    tokio::spawn(async move {
        while let Ok((mut tx, mut rx)) = c.accept_bi().await {
            let _ = rx.read_to_end(1 << 16).await;
            let hdrs = vec![("peer-id".to_string(), format!("{x_id}"))];
            let _ = tx.write_all(&wire::encode_response(1, 200, &hdrs, format!("i-am-{x_id}").as_bytes())).await;
            let _ = tx.finish();
        }
    });
}

// ---------------------------------------------------------------------------------------------

fn run_verifiers(input: RunInput) -> ScenFuture {
    Box::pin(async move {
        use anemo::verif::crypto as v;
        let w = World::new(&input, LinkCfg::clean(100, 100));
        let mut r = w.rng("wl:mut");
        let key = w.key_for(1);
        let id = public_key(&key);
        let other = w.key_for(2);
        let names = vec!["sim".to_string()];
        let cert = gen_cert(&key, "sim");
        let now: u64 = 1_790_000_000;
        let der = cert.as_ref().to_vec();
        let accept_all = |c: &[u8]| -> [bool; 3] {
            [
                v::verify_client_cert(&names, c, &[], now).is_ok(),
                v::verify_server_cert(&names, None, c, &[], "sim", now).is_ok(),
                v::verify_server_cert(&names, Some(id), c, &[], "sim", now).is_ok(),
            ]
        };
        // controls
        w.check(accept_all(&der) == [true; 3], "control-valid-certificate-rejected", "valid", || "the valid certificate is rejected".into());
        w.check(v::peer_id_from_certificate(&der) == Ok(id), "peer-id-extraction-wrong", "valid", || "PeerId of the valid certificate is not the public key".into());
        w.check(v::verify_server_cert(&names, Some(public_key(&other)), &der, &[], "sim", now).is_err(), "expected-identity-not-enforced", "verifier", || "pin to another identity accepted".into());
        for schemes in v::supported_verify_schemes() {
            w.check(schemes == vec![rustls::SignatureScheme::ED25519], "non-ed25519-handshake-scheme-offered", "schemes", || format!("{schemes:?}"));
        }
        // foreign / malformed
        let resigned = gen_cert_spki_signed_by(&key, &other, "sim");
        w.check(accept_all(resigned.as_ref()) == [false; 3], "forged-certificate-accepted", "spki-resigned", || "certificate with the victim's SPKI signed by another key accepted".into());
        let expired = gen_cert_validity(&key, "sim", 1990, 2000);
        w.check(accept_all(expired.as_ref()) == [false; 3], "expired-certificate-accepted", "expired", || "expired certificate accepted".into());
        let future = gen_cert_validity(&key, "sim", 3000, 3010);
        w.check(accept_all(future.as_ref()) == [false; 3], "not-yet-valid-certificate-accepted", "future", || "not yet valid certificate accepted".into());
        let ecdsa = {
            let kp = rcgen::KeyPair::generate_for(&rcgen::PKCS_ECDSA_P256_SHA256).unwrap();
            rcgen::CertificateParams::new(vec!["sim".to_string()]).unwrap().self_signed(&kp).unwrap().der().to_vec()
        };
        w.check(accept_all(&ecdsa)[..2] == [false; 2], "non-ed25519-certificate-accepted", "ecdsa-p256", || "ECDSA certificate accepted".into());
        w.check(v::peer_id_from_certificate(&ecdsa).is_err(), "non-ed25519-key-yields-peer-id", "ecdsa-p256", || "PeerId extracted from an ECDSA key".into());
        // with intermediates: identity is still the end entity
        let with_inter = v::verify_client_cert(&names, &der, &[gen_cert(&other, "sim").as_ref().to_vec()], now);
        let _ = with_inter;
        // single-byte mutations
        let pairs: Vec<(usize, u8)> = if w.tier == Tier::Quick {
            (0..120).map(|_| (r.gen_range(0..der.len()), r.gen_range(1..=255u8))).collect()
        } else {
            (0..der.len()).flat_map(|i| [1u8, 0x80, 0xFF, 0x20, 0x02, 0x7F, 0x10, 0x40].into_iter().map(move |x| (i, x))).collect()
        };
        let mut accepted = 0u64;
        for (i, x) in pairs {
            let mut m = der.clone();
            m[i] ^= x;
            let acc = accept_all(&m);
            w.event(format!("m{i}^{x:02x}:{}", acc.iter().filter(|a| **a).count()));
            if acc.iter().any(|a| *a) {
                accepted += 1;
                w.event(format!("mut@{i}:accepted"));
                match v::peer_id_from_certificate(&m) {
                    Ok(p) if p == id => {}
                    other => w.violate("mutated-certificate-accepted-under-another-identity", format!("offset {i}"), format!("mutation {x:#x} at offset {i} accepted by {acc:?} with identity {other:?}")),
                }
            }
            // the pinned verifier must never accept a certificate whose extracted id differs
            if acc[2] && v::peer_id_from_certificate(&m) != Ok(id) {
                w.violate("expected-identity-not-enforced", format!("offset {i}"), "pinned verifier accepted a certificate with another key".to_string());
            }
        }
        w.probe_n("mutations-still-accepted(same-identity)", accepted);
        w.mark_overlap();
        w.sample("verifier", json!({"cert_len": der.len(), "accepted_mutations": accepted}));
        w.finish()
    })
}
