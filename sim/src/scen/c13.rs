//! C13 — background dialing: who is dialed, how often, and that it succeeds.

use super::common::*;
use crate::fabric::LinkCfg;
use crate::model::backoff_ns;
use crate::runner::{ScenFuture, Scenario};
use crate::world::*;
use anemo::types::{PeerAffinity, PeerEvent, PeerInfo};
use anemo::PeerId;
use rand::Rng;
use serde_json::json;
use std::collections::BTreeMap;
use std::net::SocketAddr;
use std::sync::{Arc, Mutex};
use std::time::Duration;

pub static BACKGROUND: Scenario = Scenario {
    id: "C13",
    name: "c13-background-dialing",
    run,
    quick_runs: 8000,
    thorough_runs: 120_000,
    rule: "one run = a dialer Network with PRNG interval (100 ms-5 s), fixed jitter (hook H3), backoff step, maximum backoff, connect timeout and in-flight cap (1-3), 2-4 target Networks, and a known-peer table changed at run time (High / Allowed / Never, the dialer itself, peers without addresses, 1-3 addresses of which some are dead) over a PRNG schedule of 6-40 operations spanning minutes of virtual time (insert / remove peer, block / unblock target, target disconnects, explicit dial competing for the cap), then a final all-reachable phase; connection attempts are observed on the fabric; distinct = distinct order signature (operations and attempt destinations per tick); non-trivial = at least one failed background attempt or a reconnect after loss",
    real: super::REAL_NET,
    stubbed: super::STUB_NET,
};

const MS: u64 = 1_000_000;

/// Book-keeping stand-in for an address that cannot be resolved (a string without a port): an
/// attempt to it fails at once and never reaches the fabric.
fn bad_addr() -> SocketAddr {
    addr(250)
}

fn to_address(a: &SocketAddr) -> anemo::types::Address {
    if *a == bad_addr() {
        anemo::types::Address::from("10.77.0.250")
    } else {
        (*a).into()
    }
}

#[derive(Clone, Debug)]
struct Known {
    affinity: PeerAffinity,
    addrs: Vec<SocketAddr>,
}

/// A peer counts as free of failure history at `tick` only if its last recorded state is a success.
fn not_before_hist_ok(hist: &[(u64, Option<u64>)], tick: u64) -> bool {
    hist.iter().filter(|(t, _)| *t <= tick).last().map(|x| x.1 == Some(0)).unwrap_or(true)
}

fn run(input: RunInput) -> ScenFuture {
    Box::pin(async move {
        let w = World::new(&input, LinkCfg::clean(200, 3_000));
        let lat_max = w.param("lat_max_us", 300, 8_000) as u64;
        w.fabric.set_default_link(LinkCfg::clean(200, lat_max));
        let interval_ms = w.param("interval_ms", 100, 5_000) as u64;
        let jitter_ms = w.param("jitter_ms", 0, 1_000) as u64;
        let step_ms = w.param("backoff_step_ms", 100, 5_000) as u64;
        let max_ms = w.param("max_backoff_ms", 100, 15_000) as u64;
        let ct_ms = w.param("connect_timeout_ms", 500, 3_000) as u64;
        // (mostly small, so that it binds; in part of the runs with room for every peer at once)
        let cap = if w.flag("cap_leaves_room_for_everybody", 0.3) { w.param("large_inflight_cap", 6, 9) as usize } else { w.param("inflight_cap", 1, 3) as usize };
        let n_targets = w.param("targets", 2, 4) as usize;
        let n_ops = w.param("ops", 1, if w.tier == Tier::Quick { 40 } else { 100 }) as usize;
        let period = (interval_ms + jitter_ms) * MS;
        let mut cfg = base_config(30_000, Some(5_000));
        cfg.connectivity_check_interval_ms = Some(interval_ms);
        cfg.connection_backoff_ms = Some(step_ms);
        cfg.max_connection_backoff_ms = Some(max_ms);
        cfg.connect_timeout_ms = Some(ct_ms);
        cfg.max_concurrent_outstanding_connecting_connections = Some(cap);
        // a limit on inbound connections that peers unknown to the table have used up: it governs
        // the admission of inbound connections (C10) and never holds a background dial back
        let fillers = w.flag("connection_limit_reached_by_others", 0.3).then(|| w.param("max_concurrent_connections", 1, 2) as usize);
        cfg.max_concurrent_connections = fillers;
        let mut spec = w.spec(1, cfg.clone());
        spec.jitter = Duration::from_millis(jitter_ms);
        let t_start = w.now_ns();
        let n = w.start_node(spec, Svc::echo(&w)).unwrap();
        let mut filler_nodes = Vec::new();
        for k in 0..fillers.unwrap_or(0) {
            let mut fcfg = base_config(30_000, Some(5_000));
            fcfg.connect_timeout_ms = Some(ct_ms);
            let f = w.start_node(w.spec(20 + k as u8, fcfg), Svc::echo(&w)).unwrap();
            if f.net.connect_with_peer_id(n.addr, n.peer_id).await.is_err() {
                w.harness_error("filler connect failed");
            }
            filler_nodes.push(f);
        }
        if fillers.is_some() {
            w.probe("dialer-at-its-connection-limit");
        }
        // precise event log of the dialer
        let evlog: Arc<Mutex<Vec<(u64, PeerEvent)>>> = Default::default();
        {
            let (mut rx, _) = n.net.subscribe().unwrap();
            let (w2, log) = (w.clone(), evlog.clone());
            tokio::spawn(async move {
                while let Ok(ev) = rx.recv().await {
                    w2.event(match &ev {
                        PeerEvent::NewPeer(p) => format!("New({})", w2.pname(p)),
                        PeerEvent::LostPeer(p, r) => format!("Lost({},{r:?})", w2.pname(p)),
                    });
                    log.lock().unwrap().push((w2.now_ns(), ev));
                }
            });
        }
        let mut tcfg = base_config(30_000, Some(5_000));
        tcfg.connect_timeout_ms = Some(ct_ms);
        let mut targets = Vec::new();
        for k in 0..n_targets {
            targets.push(w.start_node(w.spec(k as u8 + 2, tcfg.clone()), Svc::echo(&w)).unwrap());
        }
        let dead = |k: usize, j: usize| addr(100 + 10 * k as u8 + j as u8);
        // which peer does a destination address belong to
        let mut owner: BTreeMap<SocketAddr, usize> = BTreeMap::new();
        for (k, t) in targets.iter().enumerate() {
            owner.insert(t.addr, k);
            for j in 0..3 {
                owner.insert(dead(k, j), k);
            }
        }
        let ids: Vec<PeerId> = targets.iter().map(|t| t.peer_id).collect();
        // ---- history of what the harness did (ground truth for the oracle) ----
        let mut known_hist: Vec<(u64, usize, Option<Known>)> = Vec::new(); // (time, peer, entry)
        let mut blocked_hist: Vec<(u64, usize, bool)> = Vec::new();
        let mut explicit: Vec<(u64, SocketAddr)> = Vec::new();
        let mut ops_log = Vec::new();
        // the dialer itself is a known High peer with an address: must never be dialed
        if w.flag("self_in_table", 0.5) {
            n.net.known_peers().insert(PeerInfo { peer_id: n.peer_id, affinity: PeerAffinity::High, address: vec![n.addr.into()] });
        }
        // "Another thread" of the application rewrites one entry of the known-peer table between
        // {High, an address where nobody answers} and {Never, a trap address} - at scheduling points,
        // i.e. right before the connection manager (or anybody) takes the table's lock (hook H8):
        // what a preemption between two reads of the table does on a real machine. A consistent
        // reader sees either entry; a datagram to the trap address means a Never entry was dialed.
        let rewriter = w.flag("known_peer_entry_rewritten_at_lock_points", 0.4);
        let z_id = PeerId([0xC3; 32]);
        let (z_dead, z_trap) = (addr(96), addr(97));
        if rewriter {
            let kp = n.net.known_peers().clone();
            let mut pr = w.rng("wl:kp-rewriter");
            let mut high = true;
            kp.insert(PeerInfo { peer_id: z_id, affinity: PeerAffinity::High, address: vec![z_dead.into()] });
            let w2 = w.clone();
            anemo::verif::set_sched_hook(Some(Box::new(move |tag| {
                if tag != "known-peers" || !pr.gen_bool(0.35) {
                    return;
                }
                high = !high;
                if high {
                    kp.insert(PeerInfo { peer_id: z_id, affinity: PeerAffinity::High, address: vec![z_dead.into()] });
                } else {
                    kp.insert(PeerInfo { peer_id: z_id, affinity: PeerAffinity::Never, address: vec![z_trap.into()] });
                }
                w2.probe("known-peer-entry-rewritten-at-a-lock-point");
            })));
        }
        let mut r = w.rng("wl:ops");
        let mut had_failure_history = vec![false; n_targets];
        for _ in 0..n_ops {
            sleep_ms(r.gen_range(0..(3 * (interval_ms + jitter_ms)).max(50))).await;
            let k = r.gen_range(0..n_targets);
            let now = w.now_ns();
            let desc;
            match r.gen_range(0..100) {
                0..=39 => {
                    let affinity = match r.gen_range(0..10) {
                        0..=6 => PeerAffinity::High,
                        7..=8 => PeerAffinity::Allowed,
                        _ => PeerAffinity::Never,
                    };
                    let mut addrs: Vec<SocketAddr> = Vec::new();
                    match r.gen_range(0..8) {
                        0 => {}
                        1 | 2 => addrs.push(targets[k].addr),
                        3 => addrs.extend([dead(k, 0), targets[k].addr]),
                        4 => addrs.extend([targets[k].addr, dead(k, 0), dead(k, 1)]),
                        5 => addrs.extend([bad_addr(), targets[k].addr]),
                        6 => addrs.extend([dead(k, 0), bad_addr(), targets[k].addr]),
                        _ => addrs.extend([dead(k, 0), dead(k, 1)]),
                    }
                    if addrs.iter().any(|a| *a != targets[k].addr) {
                        had_failure_history[k] = true;
                    }
                    if addrs.contains(&bad_addr()) { w.probe("list-with-unresolvable-address"); }
                    n.net.known_peers().insert(PeerInfo { peer_id: ids[k], affinity, address: addrs.iter().map(to_address).collect() });
                    desc = format!("insert t{k} {affinity:?} {} addrs ({} dead)", addrs.len(), addrs.iter().filter(|a| **a != targets[k].addr).count());
                    known_hist.push((now, k, Some(Known { affinity, addrs })));
                }
                40..=49 => {
                    n.net.known_peers().remove(&ids[k]);
                    known_hist.push((now, k, None));
                    desc = format!("remove t{k}");
                }
                50..=64 => {
                    let b = r.gen_bool(0.5);
                    if b {
                        w.fabric.partition(n.addr, targets[k].addr);
                        had_failure_history[k] = true;
                    } else {
                        w.fabric.heal(n.addr, targets[k].addr);
                    }
                    blocked_hist.push((now, k, b));
                    desc = format!("{} t{k}", if b { "block" } else { "unblock" });
                }
                65..=79 => {
                    let _ = targets[k].net.disconnect(n.peer_id);
                    desc = format!("t{k} disconnects");
                }
                _ => {
                    // explicit dial by the application, competing for the in-flight cap
                    if had_failure_history[k] {
                        continue;
                    }
                    let a = if r.gen_bool(0.7) { targets[k].addr } else { addr(200) };
                    explicit.push((now, a));
                    let net = n.net.clone();
                    tokio::spawn(async move {
                        let _ = net.connect(a).await;
                    });
                    desc = format!("explicit dial to {}", if a == addr(200) { "a dead address".to_string() } else { format!("t{k}") });
                }
            }
            w.event(desc.clone());
            if ops_log.len() < 40 {
                ops_log.push(format!("{} ms: {desc}", now / MS));
            }
        }
        // ---- final phase: everything reachable, every known High peer gets its live address only ----
        if rewriter {
            anemo::verif::set_sched_hook(None);
            n.net.known_peers().remove(&z_id);
            // (an attempt to the dead address may still be in flight: it holds its slot of the cap
            // until the connect timeout)
            sleep_ms(ct_ms + 50).await;
        }
        let t_final = w.now_ns();
        for k in 0..n_targets {
            w.fabric.heal(n.addr, targets[k].addr);
            blocked_hist.push((t_final, k, false));
        }
        let mut final_high = Vec::new();
        let mut max_list = 1u64;
        {
            // current table
            let mut cur: BTreeMap<usize, Known> = BTreeMap::new();
            for (_, k, e) in &known_hist {
                match e {
                    Some(e) => {
                        cur.insert(*k, e.clone());
                    }
                    None => {
                        cur.remove(k);
                    }
                }
            }
            for (k, e) in cur {
                if matches!(e.affinity, PeerAffinity::High) && !e.addrs.is_empty() {
                    // the address list stays as it is (dead and unresolvable entries included): the
                    // rotation must get past them; the live address is appended if it is missing
                    let mut addrs = e.addrs.clone();
                    if !addrs.contains(&targets[k].addr) {
                        addrs.push(targets[k].addr);
                        n.net.known_peers().insert(PeerInfo { peer_id: ids[k], affinity: PeerAffinity::High, address: addrs.iter().map(to_address).collect() });
                        known_hist.push((t_final, k, Some(Known { affinity: PeerAffinity::High, addrs: addrs.clone() })));
                    }
                    max_list = max_list.max(addrs.len() as u64);
                    final_high.push(k);
                }
            }
        }
        // bound: the largest backoff that can be pending + connect timeout of a dial in flight +
        // enough ticks to get through the cap + handshake time
        let worst_k = 64u64;
        // (one full rotation through the longest list: every entry may cost a connect timeout, a
        // backoff and the ticks to notice and to retry)
        // ... and the cap serialises the peers: with n peers and room for `cap` attempts at a time the
        // lists are worked through in ceil(n / cap) rounds; which peer gets a free slot at a tick is a
        // (seeded) lottery among the eligible ones, hence the factor two
        let rounds = (final_high.len() as u64).div_ceil(cap as u64).max(1);
        let final_wait = 2 * rounds * max_list * (backoff_ns(worst_k, step_ms * MS, max_ms * MS) + ct_ms * MS + 2 * period) + (2 + final_high.len() as u64 / cap as u64 + 1) * period + 2_000 * MS;
        tokio::time::sleep(Duration::from_nanos(final_wait)).await;
        // a connection that only ends during this phase (a stale one that the healed network
        // finally resets, a target that disconnects late) restarts the clock for that peer:
        // "and again after the connection is lost"
        for _ in 0..4 {
            let listed = n.net.peers();
            let last_loss = final_high
                .iter()
                .filter(|k| !listed.contains(&ids[**k]))
                .filter_map(|k| evlog.lock().unwrap().iter().filter(|(_, e)| matches!(e, PeerEvent::LostPeer(p, _) if *p == ids[*k])).map(|(t, _)| *t).last())
                .max();
            match last_loss {
                Some(t) if t + final_wait > w.now_ns() => tokio::time::sleep(Duration::from_nanos(t + final_wait - w.now_ns())).await,
                _ => break,
            }
        }
        let t_end = w.now_ns();
        let listed = n.net.peers();
        for k in &final_high {
            if !listed.contains(&ids[*k]) {
                w.violate("reachable-high-peer-not-connected", "final-phase", format!("t{k} is a known High-affinity peer whose address list contains a live address and has been reachable for {} ms (max backoff {max_ms} ms, interval {} ms, connect timeout {ct_ms} ms) but is not connected", (t_end - t_final) / MS, interval_ms + jitter_ms));
            }
        }
        // ---- "and again after the connection is lost", with the dialer's application busy: a target
        //      sends the dialer a request whose handler is CPU-bound for longer than everything
        //      below and hangs up. The connection is gone whatever that handler is doing: the peer
        //      is dialed again at the next check and really connected (the target lists the dialer
        //      over a new connection) one interval and a connect time later ----
        if !w.violated() && !final_high.is_empty() && w.flag("loss_while_a_handler_of_that_peer_is_cpu_bound", 0.3) {
            let k = final_high[r.gen_range(0..final_high.len())];
            if n.net.peers().contains(&ids[k]) && targets[k].net.peers().contains(&n.peer_id) {
                // (the same allowance as the final phase: the peer's address list may begin with
                // dead addresses, each costing a connect timeout, a backoff and the ticks between)
                let allowance_ms = final_wait / MS;
                let hold_ms = allowance_ms + 3_000;
                let (tn, nid) = (targets[k].net.clone(), n.peer_id);
                tokio::spawn(async move {
                    let _ = tn.rpc(nid, anemo::Request::new(bytes::Bytes::from_static(b"busy")).with_header("x-hold-ms", hold_ms.to_string())).await;
                });
                sleep_ms(2 * lat_max / 1000 + 5).await;
                let _ = targets[k].net.disconnect(n.peer_id);
                let t_loss = w.now_ns();
                sleep_ms(allowance_ms).await;
                if !targets[k].net.peers().contains(&n.peer_id) {
                    w.violate("high-peer-not-redialed-after-loss", "handler-cpu-bound", format!("t{k} hung up at {} ms while a request of its was in a CPU-bound handler of the dialer ({hold_ms} ms); {allowance_ms} ms later (the final phase's allowance; interval + jitter {} ms, connect timeout {ct_ms} ms) the dialer has not connected to it again (the dialer lists it: {})", t_loss / MS, period / MS, n.net.peers().contains(&ids[k])));
                }
                w.probe("loss-while-handler-cpu-bound");
                // let the held handler end before the run is judged further
                sleep_ms(3_500).await;
            }
        }
        // ---- safety oracle over the attempts observed on the fabric ----
        let attempts: Vec<(u64, SocketAddr)> = w.fabric.lock().attempts.iter().filter(|a| a.from == n.addr).map(|a| (a.at_ns, a.to)).collect();
        let events = evlog.lock().unwrap().clone();
        let known_at = |t: u64, k: usize| -> Option<Known> {
            let mut cur = None;
            for (tt, kk, e) in &known_hist {
                if *tt <= t && *kk == k {
                    cur = e.clone();
                }
            }
            cur
        };
        let connected_at = |t: u64, p: &PeerId| -> (bool, bool) {
            // (connected, ambiguous: an event for this peer within 2 ms of t)
            let mut c = false;
            let mut amb = false;
            for (tt, e) in &events {
                let (is_new, q) = match e {
                    PeerEvent::NewPeer(q) => (true, q),
                    PeerEvent::LostPeer(q, _) => (false, q),
                };
                if q != p {
                    continue;
                }
                if tt.abs_diff(t) <= 2 * MS {
                    amb = true;
                }
                if *tt <= t {
                    c = is_new;
                }
            }
            (c, amb)
        };
        // per peer: consecutive failures so far, earliest allowed next attempt, unresolved-until
        // None = unknown (an attempt whose outcome the harness cannot predict happened)
        let mut fails: Vec<Option<u64>> = vec![Some(0); n_targets];
        let mut not_before: Vec<u64> = vec![0; n_targets];
        let mut unresolved_until: Vec<u64> = vec![0; n_targets];
        let mut per_tick: BTreeMap<u64, u64> = BTreeMap::new();
        let mut fails_hist: Vec<Vec<(u64, Option<u64>)>> = vec![vec![(0, Some(0))]; n_targets];
        // instant at which the failure count of a peer was last certain (start, or a noticed success)
        let mut certain_since: Vec<u64> = vec![0; n_targets];
        // attempts of the dialer (background or explicit) that are certain to stay unresolved until
        // their connect timeout: destinations that are dead, or blocked for the whole window
        let mut certain_pending: Vec<(u64, u64)> = Vec::new();
        for (at, to) in &attempts {
            let certain = match owner.get(to) {
                None => *to != n.addr,
                Some(&k) => {
                    let live = *to == targets[k].addr;
                    let blocked_now = blocked_hist.iter().filter(|(t, kk, _)| *kk == k && *t <= *at).last().map(|x| x.2).unwrap_or(false);
                    let changes = blocked_hist.iter().any(|(t, kk, _)| *kk == k && *t > *at && *t < at + ct_ms * MS);
                    !live || (blocked_now && !changes)
                }
            };
            if certain {
                certain_pending.push((*at, at + ct_ms * MS));
            }
        }
        let mut bg_attempts = 0u64;
        let mut backoff_upper_checked = 0u64;
        let mut failed_attempts = 0u64;
        let next_tick_at_or_after = |t: u64| -> u64 {
            let d = t.saturating_sub(t_start);
            t_start + d.div_ceil(period) * period
        };
        for (at, to) in &attempts {
            if explicit.iter().any(|(t, a)| a == to && at.abs_diff(*t) <= 2 * MS) {
                continue; // the application's own dial
            }
            bg_attempts += 1;
            let key = format!("interval={interval_ms} jitter={jitter_ms}");
            // S1: only at tick instants
            let off = (at - t_start) % period;
            if off > 2 * MS {
                w.violate("background-dial-off-tick", key.clone(), format!("attempt to {to} at {} ms is {} ms after a tick (period {} ms)", at / MS, off / MS, period / MS));
                continue;
            }
            let tick = at - off;
            *per_tick.entry(tick).or_default() += 1;
            if *to == n.addr {
                w.violate("background-dial-to-self", key.clone(), format!("attempt to the dialer's own address at {} ms", at / MS));
                continue;
            }
            if rewriter && *to == z_trap {
                w.violate("background-dial-to-non-high-peer", "entry-rewritten-between-two-reads", format!("attempt at {} ms to an address that the known-peer table only ever listed under affinity Never (the entry was being rewritten between High and Never by another thread)", at / MS));
                continue;
            }
            if rewriter && *to == z_dead {
                continue; // the High incarnation of the rewritten entry: dead address, nothing to judge
            }
            let Some(&k) = owner.get(to) else {
                w.violate("background-dial-to-unknown-address", key.clone(), format!("attempt to {to} at {} ms", at / MS));
                continue;
            };
            // S2: table entry at the tick
            let entry = known_at(tick, k);
            let entry_amb = known_hist.iter().any(|(t, kk, _)| *kk == k && t.abs_diff(tick) <= 2 * MS);
            match &entry {
                None if !entry_amb => {
                    w.violate("background-dial-to-peer-not-in-table", key.clone(), format!("attempt to t{k} at {} ms but it is not a known peer", at / MS));
                    continue;
                }
                Some(e) if !entry_amb && !matches!(e.affinity, PeerAffinity::High) => {
                    w.violate("background-dial-to-non-high-peer", format!("{:?}", e.affinity), format!("attempt to t{k} ({:?}) at {} ms", e.affinity, at / MS));
                    continue;
                }
                _ => {}
            }
            // S3: not while connected
            let (conn, amb) = connected_at(tick, &ids[k]);
            if conn && !amb {
                w.violate("background-dial-to-connected-peer", key.clone(), format!("attempt to t{k} at {} ms while it is listed as connected", at / MS));
                continue;
            }
            // attempts to an unresolvable address never reach the fabric: if such an entry was in
            // the list at any time since the count was last certain, the number of consecutive
            // failures cannot be known from the outside
            let mut had_bad = false;
            let mut cur_bad = false;
            for (t, kk, e) in &known_hist {
                if *kk != k || *t > tick {
                    continue;
                }
                if *t <= certain_since[k] {
                    cur_bad = e.as_ref().map(|e| e.addrs.contains(&bad_addr())).unwrap_or(false);
                    continue;
                }
                cur_bad = e.as_ref().map(|e| e.addrs.contains(&bad_addr())).unwrap_or(false);
                had_bad |= cur_bad;
            }
            // (the entry in effect at `certain_since` counts too)
            let in_effect_then = known_hist.iter().filter(|(t, kk, _)| *kk == k && *t <= certain_since[k]).last().map(|x| x.2.as_ref().map(|e| e.addrs.contains(&bad_addr())).unwrap_or(false)).unwrap_or(false);
            let _ = cur_bad;
            if had_bad || in_effect_then {
                fails[k] = None;
                not_before[k] = 0;
            }
            // S4: not while an earlier attempt is unresolved, not before the backoff instant
            if tick < unresolved_until[k] {
                w.violate("background-dial-while-previous-unresolved", key.clone(), format!("attempt to t{k} at {} ms while the attempt before it cannot have resolved before {} ms", at / MS, unresolved_until[k] / MS));
                continue;
            }
            // ... and not long after it either ("within min(max-backoff, k x backoff-step) ... of"):
            // judged where nothing but the backoff can have held the attempt back - the cap leaves
            // room for every peer at once, the entry has not changed since the failure was noticed,
            // no explicit dial of the application's competes
            if not_before[k] > 0 && fails[k].map(|f| f >= 1).unwrap_or(false) && cap >= n_targets + 2 && fillers.is_none() {
                let due = next_tick_at_or_after(not_before[k]);
                let quiet = !known_hist.iter().any(|(t, kk, _)| *kk == k && *t + period >= not_before[k].saturating_sub(backoff_ns(fails[k].unwrap_or(1), step_ms * MS, max_ms * MS)) && *t <= tick)
                    && !explicit.iter().any(|(t, _)| *t + ct_ms * MS + period >= due && *t <= tick)
                    && !blocked_hist.iter().any(|(t, kk, _)| *kk == k && *t + ct_ms * MS >= due.saturating_sub(period) && *t <= tick);
                if quiet && tick > due + 2 * period {
                    w.violate("background-dial-later-than-backoff", format!("k={:?}", fails[k]), format!("attempt to t{k} at {} ms although after {:?} consecutive failures (step {step_ms} ms, max {max_ms} ms) it was due at the tick at {} ms and nothing else held it back (cap {cap}, {n_targets} peers)", at / MS, fails[k], due / MS));
                    continue;
                }
                backoff_upper_checked += 1;
            }
            if tick < not_before[k] {
                w.violate("background-dial-before-backoff", format!("k={:?}", fails[k]), format!("attempt to t{k} at {} ms but after {:?} consecutive failures (step {step_ms} ms, max {max_ms} ms) none may start before {} ms", at / MS, fails[k], not_before[k] / MS));
                continue;
            }
            // S5: address rotation (only while the number of consecutive failures is certain)
            if let (Some(e), false, Some(f)) = (&entry, entry_amb, fails[k]) {
                if e.addrs.len() > 1 {
                    let want = e.addrs[(f as usize) % e.addrs.len()];
                    if want != *to {
                        w.violate("address-rotation", format!("k={f} n={}", e.addrs.len()), format!("attempt after {f} consecutive failures to t{k} at {} ms went to {to}, expected address index {} ({want})", at / MS, f as usize % e.addrs.len()));
                        continue;
                    }
                }
            }
            // outcome of this attempt (ground truth: is the destination live and unblocked?)
            let live = *to == targets[k].addr;
            let blocked_now = blocked_hist.iter().filter(|(t, kk, _)| *kk == k && *t <= *at).last().map(|x| x.2).unwrap_or(false);
            let blocked_changes = blocked_hist.iter().any(|(t, kk, _)| *kk == k && *t > *at && *t < at + ct_ms * MS);
            if live && !blocked_now && !blocked_changes {
                // succeeds within a few round trips
                let success = events.iter().find(|(t, e)| *t >= *at && matches!(e, PeerEvent::NewPeer(q) if *q == ids[k])).map(|x| x.0);
                match success {
                    Some(t) if t <= at + ct_ms * MS => {
                        unresolved_until[k] = t;
                        fails[k] = Some(0);
                        not_before[k] = 0;
                        certain_since[k] = t;
                    }
                    _ => {
                        // e.g. the target disconnected at once or a simultaneous inbound won; unknown
                        unresolved_until[k] = *at;
                        fails[k] = None;
                        not_before[k] = 0;
                    }
                }
            } else if !live || (blocked_now && !blocked_changes) {
                // fails exactly at the connect timeout; noticed at the first tick at or after that
                failed_attempts += 1;
                let resolved = at + ct_ms * MS;
                unresolved_until[k] = resolved;
                fails[k] = fails[k].map(|f| f + 1);
                let noticed = next_tick_at_or_after(resolved);
                // with an unknown count the backoff is at least one step (or the maximum)
                not_before[k] = noticed + backoff_ns(fails[k].unwrap_or(1), step_ms * MS, max_ms * MS);
            } else {
                // reachability changed during the attempt: outcome unknown
                unresolved_until[k] = *at;
                fails[k] = None;
                not_before[k] = 0;
            }
            fails_hist[k].push((*at, fails[k]));
        }
        // ---- liveness while the history is still running: a High peer without failure history
        //      whose next address answers is connected within one period (+ handshake time) of
        //      becoming eligible (fresh insert, or loss of its connection) ----
        let handshake_allow = (6 * lat_max / 1000 + 50) * MS;
        let mut candidates: Vec<(u64, usize, &'static str)> = Vec::new();
        for (t, k, e) in &known_hist {
            if *t < t_final {
                if let Some(e) = e {
                    if matches!(e.affinity, PeerAffinity::High) && e.addrs.first() == Some(&targets[*k].addr) {
                        candidates.push((*t, *k, "insert"));
                    }
                }
            }
        }
        for (t, e) in &events {
            if let PeerEvent::LostPeer(p, _) = e {
                if let Some(k) = ids.iter().position(|x| x == p) {
                    if *t < t_final {
                        candidates.push((*t, k, "lost"));
                    }
                }
            }
        }
        let mut liveness_checked = 0u64;
        for (t_e, k, why) in candidates {
            let tick = next_tick_at_or_after(t_e + 3 * MS);
            let deadline = tick + handshake_allow;
            if deadline >= t_final {
                continue;
            }
            // the peer must be a stable, eligible, reachable High peer over the whole window
            let entry = known_at(t_e, k);
            let stable = !known_hist.iter().any(|(t, kk, _)| *kk == k && *t > t_e && *t <= deadline) && !blocked_hist.iter().any(|(t, kk, _)| *kk == k && *t > t_e.saturating_sub(ct_ms * MS) && *t <= deadline);
            let blocked_now = blocked_hist.iter().filter(|(t, kk, _)| *kk == k && *t <= t_e).last().map(|x| x.2).unwrap_or(false);
            let eligible = matches!(&entry, Some(e) if matches!(e.affinity, PeerAffinity::High) && e.addrs.first() == Some(&targets[k].addr));
            let no_history = fails_hist[k].iter().filter(|(t, _)| *t <= tick).last().map(|x| x.1 == Some(0)).unwrap_or(false) && not_before_hist_ok(&fails_hist[k], tick);
            let (conn, amb) = connected_at(t_e + MS, &ids[k]);
            let explicit_near = explicit.iter().any(|(t, a)| *a == targets[k].addr && *t + ct_ms * MS > t_e && *t <= deadline);
            // (an unresolvable address earlier in this peer's history leaves invisible failures behind)
            let hidden_history = known_hist.iter().any(|(t, kk, e)| *kk == k && *t <= tick && e.as_ref().map(|e| e.addrs.contains(&bad_addr())).unwrap_or(false));
            // ... and while any peer's list holds one, an invisible attempt may take a slot of the cap
            let invisible_possible = (0..n_targets).any(|kk| known_at(tick, kk).map(|e| e.addrs.contains(&bad_addr())).unwrap_or(false));
            if !stable || blocked_now || !eligible || !no_history || hidden_history || invisible_possible || conn || amb || explicit_near {
                continue;
            }
            // the cap may legitimately postpone it: other dials started at that tick or still in flight
            let others = per_tick.get(&tick).copied().unwrap_or(0) as usize;
            // attempts of the dialer that cannot have resolved by this tick: started before it, connect
            // timeout not yet over, and the destination dead or blocked from the start up to the tick
            let in_flight = attempts
                .iter()
                .filter(|(at, to)| {
                    // (generous at both ends: an attempt whose connect timeout ends within the
                    // tick's own millisecond may still hold its slot when the tick is processed)
                    if !(*at < tick && tick <= at + ct_ms * MS + 2 * MS) {
                        return false;
                    }
                    match owner.get(to) {
                        None => *to != n.addr,
                        Some(&kk) => {
                            let live = *to == targets[kk].addr;
                            let blocked_at_start = blocked_hist.iter().filter(|(t, k2, _)| *k2 == kk && *t <= *at).last().map(|x| x.2).unwrap_or(false);
                            let unblocked_before_tick = blocked_hist.iter().any(|(t, k2, b)| *k2 == kk && *t > *at && *t <= tick && !*b);
                            // (a dial to a live address is still handshaking until its NewPeer is published)
                            // (... published clearly before the tick: within the same millisecond the
                            // order of "connection registered" and "tick" is not observable from outside)
                            let still_handshaking = live && !events.iter().any(|(t, e)| *t >= *at && *t + 2 * MS <= tick && matches!(e, PeerEvent::NewPeer(q) if *q == ids[kk]));
                            !live || (blocked_at_start && !unblocked_before_tick) || still_handshaking
                        }
                    }
                })
                .count();
            let dialed = attempts.iter().any(|(at, to)| *to == targets[k].addr && *at >= tick && *at <= tick + 2 * MS);
            if !dialed && others + in_flight >= cap {
                continue;
            }
            liveness_checked += 1;
            let connected = events.iter().any(|(t, e)| *t > t_e && *t <= deadline && matches!(e, PeerEvent::NewPeer(q) if *q == ids[k]));
            if !connected {
                w.violate("eligible-high-peer-not-dialed-within-one-interval", why, format!("t{k} became eligible at {} ms ({why}); the next tick is at {} ms; {} ms after it (handshake allowance) it is still not connected (dialed at that tick: {dialed}; other dials at that tick {others}, certainly in flight {in_flight}, cap {cap})", t_e / MS, tick / MS, handshake_allow / MS));
            }
        }
        w.probe_n("liveness-windows-checked", liveness_checked);
        // S6: no background dial is started while the number of connections being established is
        // at the cap: new dials of one tick <= cap - attempts certainly still in flight
        for (tick, cnt) in &per_tick {
            let in_flight = certain_pending.iter().filter(|(a, b)| *a + 2 * MS < *tick && *tick + 2 * MS < *b).count();
            let allowed = cap.saturating_sub(in_flight);
            if *cnt as usize > allowed {
                w.violate("inflight-cap-exceeded", format!("cap={cap}"), format!("{cnt} background dials started at the tick at {} ms although {in_flight} connection attempts were still being established (cap {cap})", tick / MS));
            }
        }
        // liveness: a reconnect after loss / fresh insert is covered by the final phase; here the
        // bound for peers without failure history: connected within one period + connect time
        if failed_attempts > 0 || events.iter().any(|(_, e)| matches!(e, PeerEvent::LostPeer(..))) {
            w.mark_overlap();
        }
        w.probe_n("background-attempts", bg_attempts);
        w.probe_n("backoff-upper-bound-checked", backoff_upper_checked);
        w.probe_n("failed-background-attempts", failed_attempts);
        w.sample("run", json!({"interval_ms": interval_ms, "jitter_ms": jitter_ms, "backoff_step_ms": step_ms, "max_backoff_ms": max_ms, "connect_timeout_ms": ct_ms, "cap": cap, "ops": ops_log,
            "attempts": attempts.iter().take(20).map(|(t, a)| format!("{} ms -> {a}", t / MS)).collect::<Vec<_>>()}));
        let out = w.finish();
        drop((n, targets, filler_nodes));
        out
    })
}
