//! One integer decides everything: named PRNG streams derived from the run seed.
//!
//! Every stream is keyed by a name (`link:a>b`, `wl:client0`, `cfg:nodes`, ...), so removing one
//! fault or overriding one parameter during minimisation does not shift any other choice.

use rand::{rngs::StdRng, SeedableRng};

pub fn splitmix(mut x: u64) -> u64 {
    x = x.wrapping_add(0x9E37_79B9_7F4A_7C15);
    let mut z = x;
    z = (z ^ (z >> 30)).wrapping_mul(0xBF58_476D_1CE4_E5B9);
    z = (z ^ (z >> 27)).wrapping_mul(0x94D0_49BB_1331_11EB);
    z ^ (z >> 31)
}

/// Seed of run `index` of a batch with base seed `base`.
pub fn run_seed(base: u64, index: u64) -> u64 {
    splitmix(splitmix(base) ^ index.wrapping_mul(0xA24B_AED4_963E_E407))
}

pub fn fnv(s: &[u8]) -> u64 {
    let mut h: u64 = 0xcbf2_9ce4_8422_2325;
    for b in s {
        h ^= *b as u64;
        h = h.wrapping_mul(0x0000_0100_0000_01b3);
    }
    h
}

#[derive(Clone, Copy, Debug)]
pub struct Choice {
    pub seed: u64,
}

impl Choice {
    pub fn new(seed: u64) -> Self {
        Self { seed }
    }
    pub fn stream(&self, name: &str) -> StdRng {
        StdRng::seed_from_u64(splitmix(self.seed ^ fnv(name.as_bytes())))
    }
    pub fn bytes32(&self, name: &str) -> [u8; 32] {
        use rand::RngCore;
        let mut out = [0u8; 32];
        self.stream(name).fill_bytes(&mut out);
        out
    }
}

/// Running order-independent-free hash used for event logs and order signatures.
#[derive(Clone, Copy, Debug)]
pub struct RunHash(pub u64);

impl Default for RunHash {
    fn default() -> Self {
        RunHash(0xcbf2_9ce4_8422_2325)
    }
}

impl RunHash {
    pub fn push_u64(&mut self, v: u64) {
        for b in v.to_le_bytes() {
            self.0 ^= b as u64;
            self.0 = self.0.wrapping_mul(0x0000_0100_0000_01b3);
        }
    }
    pub fn push_bytes(&mut self, v: &[u8]) {
        for b in v {
            self.0 ^= *b as u64;
            self.0 = self.0.wrapping_mul(0x0000_0100_0000_01b3);
        }
        self.push_u64(v.len() as u64);
    }
}
