//! Per-run context: fabric, choice streams, parameters, semantic event log, probes, violation,
//! node construction and the harness service.

use crate::choice::{Choice, RunHash};
use crate::fabric::{Fabric, FaultKey, FaultMode, LinkCfg, SimRuntime};
use anemo::types::PeerEvent;
use anemo::{Network, PeerId, Request, Response};
use bytes::Bytes;
use rand::Rng;
use serde_json::{json, Value};
use std::collections::{BTreeMap, BTreeSet};
use std::convert::Infallible;
use std::future::Future;
use std::net::SocketAddr;
use std::pin::Pin;
use std::sync::atomic::{AtomicI64, AtomicU64, Ordering};
use std::sync::{Arc, Mutex};
use std::task::{Context, Poll};
use std::time::Duration;

#[derive(Clone, Copy, Debug, PartialEq, Eq)]
pub enum Tier {
    Quick,
    Thorough,
}

impl Tier {
    pub fn as_str(self) -> &'static str {
        match self {
            Tier::Quick => "quick",
            Tier::Thorough => "thorough",
        }
    }
}

#[derive(Clone, Debug)]
pub struct RunInput {
    /// index of the run within its batch (used by scenarios that enumerate a finite space)
    pub index: u64,
    pub seed: u64,
    pub tier: Tier,
    pub overrides: BTreeMap<String, i64>,
    pub faults: FaultMode,
    pub record_log: bool,
    /// explicit schedule (minimised replays): the scheduling decisions - by running index - that
    /// deviate from FIFO, with the choice made there; every other decision is FIFO. `None`: the
    /// decisions are drawn from the run's `sched` stream according to its schedule mode.
    pub sched_explicit: Option<BTreeMap<u64, u64>>,
}

impl RunInput {
    pub fn new(seed: u64, tier: Tier) -> Self {
        let mut overrides = BTreeMap::new();
        // development aid: force the schedule mode of every run (0 fifo, 1 rare-swap, 2 lifo,
        // 3 random); recorded as an override so that replay files stay self-contained
        if let Some(v) = std::env::var("VERIF_SCHED").ok().and_then(|s| s.parse::<i64>().ok()) {
            overrides.insert("sched".to_string(), v);
        }
        Self {
            index: 0,
            seed,
            tier,
            overrides,
            faults: FaultMode::Prng,
            record_log: false,
            sched_explicit: None,
        }
    }
}

#[derive(Clone, Debug, serde::Serialize, serde::Deserialize)]
pub struct Violation {
    /// Violation class (stable identifier of the oracle clause that failed).
    pub class: String,
    /// Identifying input / call site / history shape; used to match known findings.
    pub key: String,
    pub msg: String,
}

#[derive(Debug, Default)]
pub struct RunOutput {
    pub violation: Option<Violation>,
    pub harness_error: Option<String>,
    pub sig: u64,
    pub nontrivial: bool,
    pub log_hash: u64,
    pub log: Vec<String>,
    pub params: Vec<(String, i64, i64, i64)>,
    pub fired: Vec<FaultKey>,
    pub counts: BTreeMap<String, u64>,
    pub probes: BTreeMap<String, u64>,
    pub sim_ns: u64,
    pub sample: Value,
    pub panics: Vec<String>,
    /// hash of the sequence of scheduling decisions that were not FIFO (0 = plain FIFO run)
    pub sched_sig: u64,
    /// the scheduling decisions of the run that deviated from FIFO: (running index, choice)
    pub sched_devs: Vec<(u64, u64)>,
}

pub fn addr(idx: u8) -> SocketAddr {
    SocketAddr::from(([10, 77, 0, idx], 7000))
}

pub fn addr_port(idx: u8, port: u16) -> SocketAddr {
    SocketAddr::from(([10, 77, 0, idx], port))
}

pub fn public_key(private: &[u8; 32]) -> PeerId {
    use ring::signature::KeyPair;
    let kp = ring::signature::Ed25519KeyPair::from_seed_unchecked(private).unwrap();
    let mut out = [0u8; 32];
    out.copy_from_slice(kp.public_key().as_ref());
    PeerId(out)
}

pub fn short(p: &PeerId) -> String {
    format!("{}", p.short_display(3))
}

struct WorldInner {
    events: Vec<(u64, String)>,
    sig: RunHash,
    overlap: bool,
    probes: BTreeMap<String, u64>,
    params: Vec<(String, i64, i64, i64)>,
    violation: Option<Violation>,
    harness_error: Option<String>,
    sample: serde_json::Map<String, Value>,
    names: BTreeMap<[u8; 32], String>,
}

#[derive(Clone)]
pub struct World {
    pub seed: u64,
    pub tier: Tier,
    pub choice: Choice,
    pub fabric: Fabric,
    overrides: Arc<BTreeMap<String, i64>>,
    inner: Arc<Mutex<WorldInner>>,
    pub record_log: bool,
}

impl World {
    pub fn new(input: &RunInput, default_link: LinkCfg) -> Self {
        let choice = Choice::new(input.seed);
        let fabric = Fabric::new(choice, default_link, input.faults.clone(), input.record_log);
        fabric.spawn_pump();
        anemo::verif::set_dial_order_seed(crate::choice::splitmix(input.seed ^ 0xD1A1));
        World {
            seed: input.seed,
            tier: input.tier,
            choice,
            fabric,
            overrides: Arc::new(input.overrides.clone()),
            inner: Arc::new(Mutex::new(WorldInner {
                events: Vec::new(),
                sig: RunHash::default(),
                overlap: false,
                probes: BTreeMap::new(),
                params: Vec::new(),
                violation: None,
                harness_error: None,
                sample: serde_json::Map::new(),
                names: BTreeMap::new(),
            })),
            record_log: input.record_log,
        }
    }

    pub fn now_ns(&self) -> u64 {
        self.fabric.now_ns()
    }
    pub fn now_ms(&self) -> u64 {
        self.fabric.now_ns() / 1_000_000
    }

    /// A per-run parameter in `lo..=hi`, drawn from its own stream (`cfg:<name>`) unless the
    /// minimiser overrides it. Recorded for evidence and shrinking (towards `lo`).
    pub fn param(&self, name: &str, lo: i64, hi: i64) -> i64 {
        let v = match self.overrides.get(name) {
            Some(v) => (*v).clamp(lo, hi),
            None => self.choice.stream(&format!("cfg:{name}")).gen_range(lo..=hi),
        };
        let mut w = self.inner.lock().unwrap();
        if !w.params.iter().any(|p| p.0 == name) {
            w.params.push((name.to_string(), v, lo, hi));
        }
        v
    }

    /// true with probability `p`; shrinks towards false.
    pub fn flag(&self, name: &str, p: f64) -> bool {
        let v = match self.overrides.get(name) {
            Some(v) => *v != 0,
            None => self.choice.stream(&format!("cfg:{name}")).gen_bool(p),
        };
        let mut w = self.inner.lock().unwrap();
        if !w.params.iter().any(|x| x.0 == name) {
            w.params.push((name.to_string(), v as i64, 0, 1));
        }
        v
    }

    pub fn rng(&self, stream: &str) -> rand::rngs::StdRng {
        self.choice.stream(stream)
    }

    /// Semantic event: goes into the event log (with time) and the order signature (without).
    pub fn event(&self, text: impl Into<String>) {
        let text = text.into();
        let now = self.now_ns();
        if std::env::var("VERIF_TRACE_FABRIC").is_ok() {
            eprintln!("{now} EV {text}");
        }
        let mut w = self.inner.lock().unwrap();
        w.sig.push_bytes(text.as_bytes());
        w.events.push((now, text));
    }

    pub fn mark_overlap(&self) {
        self.inner.lock().unwrap().overlap = true;
    }

    pub fn probe(&self, name: &str) {
        *self.inner.lock().unwrap().probes.entry(name.to_string()).or_default() += 1;
    }

    pub fn probe_n(&self, name: &str, n: u64) {
        *self.inner.lock().unwrap().probes.entry(name.to_string()).or_default() += n;
    }

    pub fn sample(&self, key: &str, v: Value) {
        self.inner.lock().unwrap().sample.insert(key.to_string(), v);
    }

    pub fn name_peer(&self, p: PeerId, name: &str) {
        self.inner.lock().unwrap().names.insert(p.0, name.to_string());
    }

    pub fn pname(&self, p: &PeerId) -> String {
        self.inner
            .lock()
            .unwrap()
            .names
            .get(&p.0)
            .cloned()
            .unwrap_or_else(|| format!("?{}", short(p)))
    }

    /// Record a violation (the first one wins).
    pub fn violate(&self, class: &str, key: impl Into<String>, msg: impl Into<String>) {
        let msg = msg.into();
        let key = key.into();
        let now = self.now_ns();
        let mut w = self.inner.lock().unwrap();
        w.events.push((now, format!("VIOLATION {class} [{key}] {msg}")));
        if w.violation.is_none() {
            w.violation = Some(Violation {
                class: class.to_string(),
                key,
                msg,
            });
        }
    }

    pub fn violated(&self) -> bool {
        self.inner.lock().unwrap().violation.is_some()
    }

    pub fn harness_error(&self, msg: impl Into<String>) {
        let mut w = self.inner.lock().unwrap();
        if w.harness_error.is_none() {
            w.harness_error = Some(msg.into());
        }
    }

    pub fn check(&self, cond: bool, class: &str, key: impl Into<String>, msg: impl FnOnce() -> String) -> bool {
        if !cond {
            self.violate(class, key, msg());
        }
        cond
    }

    pub fn finish(&self) -> RunOutput {
        let f = self.fabric.lock();
        let mut w = self.inner.lock().unwrap();
        let mut log_hash = f.hash;
        for (t, e) in &w.events {
            log_hash.push_u64(*t);
            log_hash.push_bytes(e.as_bytes());
        }
        let mut log: Vec<String> = Vec::new();
        if self.record_log {
            // merge fabric log and semantic events by time (stable: fabric first at equal time)
            let mut merged: Vec<(u64, u8, String)> = f
                .log
                .iter()
                .map(|l| {
                    let t: u64 = l.split(' ').next().unwrap().parse().unwrap_or(0);
                    (t, 0u8, l.clone())
                })
                .collect();
            merged.extend(w.events.iter().map(|(t, e)| (*t, 1u8, format!("{t} EV {e}"))));
            merged.sort_by(|a, b| (a.0, a.1).cmp(&(b.0, b.1)));
            log = merged.into_iter().map(|x| x.2).collect();
        } else {
            log = w.events.iter().map(|(t, e)| format!("{t} EV {e}")).collect();
        }
        let nontrivial = !f.fired.is_empty() || w.overlap || f.counts.values().any(|v| *v > 0);
        let mut counts: BTreeMap<String, u64> = f.counts.iter().map(|(k, v)| (k.to_string(), *v)).collect();
        counts.insert("datagrams_sent".into(), f.sent);
        counts.insert("datagrams_delivered".into(), f.delivered);
        let mut sample = std::mem::take(&mut w.sample);
        sample.insert("seed".into(), json!(self.seed));
        sample.insert(
            "params".into(),
            Value::Object(w.params.iter().map(|p| (p.0.clone(), json!(p.1))).collect()),
        );
        sample.insert(
            "faults_fired".into(),
            json!(f.fired.iter().take(12).map(|k| format!("{}#{}:{}", k.stream, k.index, k.kind)).collect::<Vec<_>>()),
        );
        sample.insert(
            "events".into(),
            json!(w.events.iter().take(40).map(|(t, e)| format!("{:.3}ms {e}", *t as f64 / 1e6)).collect::<Vec<_>>()),
        );
        RunOutput {
            violation: w.violation.clone(),
            harness_error: w.harness_error.clone(),
            sig: w.sig.0,
            nontrivial,
            log_hash: log_hash.0,
            log,
            params: w.params.clone(),
            fired: f.fired.clone(),
            counts,
            probes: w.probes.clone(),
            sim_ns: self.fabric.now_ns(),
            sample: Value::Object(sample),
            panics: Vec::new(),
            sched_sig: 0,
            sched_devs: Vec::new(),
        }
    }
}

// ---------------------------------------------------------------------------------------------
// nodes
// ---------------------------------------------------------------------------------------------

pub struct NodeSpec {
    pub idx: u8,
    pub port: u16,
    pub key: [u8; 32],
    pub name: String,
    pub alt_name: Option<String>,
    pub config: anemo::Config,
    pub jitter: Duration,
    /// build the network with a (pass-through) user outbound request layer
    pub user_outbound_layer: bool,
    /// ... which holds every request back for this long before forwarding it (a throttle)
    pub user_outbound_delay: Duration,
    /// ... spent busy on an always-ready resource (`busy_on_a_hot_resource`) instead of asleep
    pub user_outbound_busy: bool,
    /// the builder's server_name is set twice (a template value first, then the real one)
    pub name_set_twice: bool,
    /// ... and adds a header `x-added` with a value of this many bytes (0 = none) to every request
    pub user_outbound_adds_header: usize,
    /// the network is bound on a dual-stack IPv6 address (its peers are IPv4 hosts all the same)
    pub dual_stack: bool,
    /// let the harness switch on settings that must not change any behaviour the scenario looks
    /// at (huge default timeouts, a huge connection limit, an alternate network name, a
    /// pass-through outbound layer, a tiny mailbox, ...): correctness must not silently depend on
    /// one configuration
    pub vary_benign: bool,
}

pub struct Node {
    pub idx: u8,
    pub addr: SocketAddr,
    pub key: [u8; 32],
    pub peer_id: PeerId,
    pub net: Network,
    pub rt: Arc<SimRuntime>,
}

impl World {
    pub fn key_for(&self, idx: u8) -> [u8; 32] {
        self.choice.bytes32(&format!("key:{idx}"))
    }

    pub fn spec(&self, idx: u8, config: anemo::Config) -> NodeSpec {
        NodeSpec {
            idx,
            port: 7000,
            key: self.key_for(idx),
            name: "sim".into(),
            alt_name: None,
            config,
            jitter: Duration::from_millis(0),
            user_outbound_layer: false,
            user_outbound_delay: Duration::ZERO,
            user_outbound_busy: false,
            name_set_twice: false,
            user_outbound_adds_header: 0,
            dual_stack: false,
            vary_benign: true,
        }
    }

    /// like [`World::spec`], for scenarios whose subject is exactly the settings the benign
    /// variation would touch
    pub fn spec_exact(&self, idx: u8, config: anemo::Config) -> NodeSpec {
        let mut s = self.spec(idx, config);
        s.vary_benign = false;
        s
    }

    /// Start a real `anemo::Network` on the fabric.
    pub fn start_node<S>(&self, spec: NodeSpec, service: S) -> anyhow::Result<Node>
    where
        S: Clone + Send + 'static,
        S: tower::Service<Request<Bytes>, Response = Response<Bytes>, Error = Infallible>,
        <S as tower::Service<Request<Bytes>>>::Future: Send + 'static,
    {
        let mut spec = spec;
        if spec.vary_benign {
            use rand::Rng;
            let mut r = self.rng(&format!("cfg:benign:{}:{}", spec.idx, spec.port));
            let c = &mut spec.config;
            if c.inbound_request_timeout_ms.is_none() && r.gen_bool(0.25) {
                c.inbound_request_timeout_ms = Some(36_000_000);
            }
            if c.outbound_request_timeout_ms.is_none() && r.gen_bool(0.25) {
                c.outbound_request_timeout_ms = Some(36_000_000);
            }
            if c.max_concurrent_connections.is_none() && r.gen_bool(0.25) {
                c.max_concurrent_connections = Some(10_000);
            }
            if c.connection_manager_channel_capacity.is_none() && r.gen_bool(0.25) {
                c.connection_manager_channel_capacity = Some(r.gen_range(1..4));
            }
            if c.max_frame_size.is_none() && r.gen_bool(0.2) {
                c.max_frame_size = Some(64 << 20);
            }
            // the connectivity check runs often (scenarios that leave it at base_config's hour
            // have no High-affinity peer with an address, so there is nothing for it to dial)
            if c.connectivity_check_interval_ms == Some(3_600_000) && r.gen_bool(0.25) {
                c.connectivity_check_interval_ms = Some(r.gen_range(50..5_000));
            }
            if let Some(q) = c.quic.as_mut() {
                if q.max_concurrent_uni_streams.is_none() && r.gen_bool(0.2) {
                    q.max_concurrent_uni_streams = Some(r.gen_range(1..4));
                }
            }
            if spec.alt_name.is_none() && r.gen_bool(0.25) {
                spec.alt_name = Some("sim-alternate".into());
            }
            if !spec.user_outbound_layer && r.gen_bool(0.25) {
                spec.user_outbound_layer = true;
            }
            // the address family a network is bound on has no bearing on anything it does with
            // its (IPv4) peers
            if r.gen_bool(0.15) {
                spec.dual_stack = true;
            }
            if r.gen_bool(0.2) {
                spec.name_set_twice = true;
            }
            self.probe("benign-config-variation");
        }
        let a = addr_port(spec.idx, spec.port);
        let socket = if spec.dual_stack { self.fabric.bind_dual_stack(a)? } else { self.fabric.bind(a)? };
        let rt = Arc::new(SimRuntime::default());
        let mut rng_seed = self.choice.bytes32(&format!("quinn:{}:{}", spec.idx, spec.port));
        rng_seed[0] ^= spec.idx;
        let peer_id = public_key(&spec.key);
        anemo::verif::set_jitter(peer_id, spec.jitter);
        anemo::verif::set_next_transport(anemo::verif::Transport {
            socket,
            runtime: rt.clone(),
            rng_seed,
        });
        // (a builder taken from a template and then given its real name: the last name set is the
        // network's name, an overridden one is gone)
        let mut b = Network::bind("127.0.0.1:0");
        if spec.name_set_twice {
            b = b.server_name("template-net");
        }
        let mut b = b
            .server_name(spec.name)
            .private_key(spec.key)
            .config(spec.config);
        if let Some(alt) = spec.alt_name {
            b = b.alternate_server_name(alt);
        }
        if spec.user_outbound_layer {
            type Inner = tower::util::BoxService<Request<Bytes>, Response<Bytes>, anemo::Error>;
            let delay = spec.user_outbound_delay;
            let busy = spec.user_outbound_busy;
            let add = spec.user_outbound_adds_header;
            b = b.outbound_request_layer(tower::layer::layer_fn(move |inner: Inner| -> Inner {
                if add > 0 {
                    use tower::ServiceExt;
                    return tower::util::BoxService::new(inner.map_request(move |req: Request<Bytes>| req.with_header("x-added", "a".repeat(add))));
                }
                if delay.is_zero() {
                    inner
                } else {
                    tower::util::BoxService::new(HoldBack { inner: Arc::new(tokio::sync::Mutex::new(inner)), delay, busy })
                }
            }));
        }
        let net = b.start(service).map_err(|e| anyhow::anyhow!("start failed: {e}"))?;
        assert_eq!(net.peer_id(), peer_id);
        assert!(net.local_addr() == a || (spec.dual_stack && net.local_addr().is_ipv6()));
        self.name_peer(peer_id, &format!("n{}", spec.idx));
        Ok(Node {
            idx: spec.idx,
            addr: a,
            key: spec.key,
            peer_id,
            net,
            rt,
        })
    }
}

impl World {
    /// Benign variation of a node's known-peer table: entries for `others` with PRNG affinities.
    /// An entry must never change what an *explicit* dial does (affinity only governs inbound
    /// admission and background dialing), so on a node that only dials (`accepts_inbound` false)
    /// every affinity including Never is drawn; on a node that must accept connections from the
    /// others only High and Allowed are. Background dialing stays out of the picture as long as
    /// the connectivity-check interval is long (`base_config`). Returns the affinities chosen.
    pub fn vary_known_peers(&self, node: &Node, others: &[(PeerId, Option<SocketAddr>)], accepts_inbound: bool) -> Vec<(PeerId, &'static str)> {
        use anemo::types::{PeerAffinity, PeerInfo};
        use rand::Rng;
        let mut r = self.rng(&format!("cfg:known-peers:{}", node.idx));
        let mut out = Vec::new();
        if !r.gen_bool(0.4) {
            return out;
        }
        for (p, a) in others {
            if *p == node.peer_id {
                continue;
            }
            let k = r.gen_range(0..if accepts_inbound { 3 } else { 4 });
            let (aff, name) = match k {
                0 => continue,
                1 => (PeerAffinity::Allowed, "allowed"),
                2 => (PeerAffinity::High, "high"),
                _ => (PeerAffinity::Never, "never"),
            };
            // (a High entry with an address would be dialed in the background at the very first
            // connectivity check: High entries stay without address here)
            let address = match a {
                Some(a) if name != "high" && r.gen_bool(0.5) => vec![(*a).into()],
                _ => vec![],
            };
            node.net.known_peers().insert(PeerInfo { peer_id: *p, affinity: aff, address });
            out.push((*p, name));
            self.probe(&format!("known-peer-entry-{name}"));
        }
        out
    }
}

/// A user outbound layer that does not forward at once (a throttle): the inner service is only
/// called after the delay.
struct HoldBack {
    inner: Arc<tokio::sync::Mutex<tower::util::BoxService<Request<Bytes>, Response<Bytes>, anemo::Error>>>,
    delay: Duration,
    busy: bool,
}

impl tower::Service<Request<Bytes>> for HoldBack {
    type Response = Response<Bytes>;
    type Error = anemo::Error;
    type Future = Pin<Box<dyn Future<Output = Result<Response<Bytes>, anemo::Error>> + Send>>;
    fn poll_ready(&mut self, _: &mut std::task::Context<'_>) -> std::task::Poll<Result<(), anemo::Error>> {
        std::task::Poll::Ready(Ok(()))
    }
    fn call(&mut self, req: Request<Bytes>) -> Self::Future {
        let (inner, delay, busy) = (self.inner.clone(), self.delay, self.busy);
        Box::pin(async move {
            if busy {
                busy_on_a_hot_resource(delay).await;
            } else {
                tokio::time::sleep(delay).await;
            }
            let mut g = inner.lock().await;
            futures::future::poll_fn(|cx| g.poll_ready(cx)).await?;
            let fut = g.call(req);
            drop(g);
            fut.await
        })
    }
}

pub fn base_config(idle_ms: u64, keep_alive_ms: Option<u64>) -> anemo::Config {
    let mut cfg = anemo::Config::default();
    let mut q = anemo::QuicConfig::default();
    q.max_idle_timeout_ms = Some(idle_ms);
    q.keep_alive_interval_ms = keep_alive_ms;
    cfg.quic = Some(q);
    // Keep background dialing out of scenarios that do not study it.
    cfg.connectivity_check_interval_ms = Some(3_600_000);
    cfg.peer_event_broadcast_channel_capacity = Some(4096);
    cfg
}

// ---------------------------------------------------------------------------------------------
// peer-event recorder (subscription replayer)
// ---------------------------------------------------------------------------------------------

#[derive(Clone, Debug)]
pub struct EvRec {
    pub at_ns: u64,
    pub ev: PeerEvent,
}

/// Drains a subscription; reconstructs the listing from snapshot + events; checks alternation.
pub struct Subscription {
    pub rx: tokio::sync::broadcast::Receiver<PeerEvent>,
    pub snapshot: Vec<PeerId>,
    pub listed: BTreeSet<PeerId>,
    pub history: Vec<EvRec>,
    pub closed: bool,
    pub lagged: bool,
    pub alternation_error: Option<String>,
}

impl Subscription {
    pub fn new(net: &Network) -> Option<Self> {
        let (rx, snapshot) = net.subscribe().ok()?;
        let listed: BTreeSet<PeerId> = snapshot.iter().copied().collect();
        Some(Self {
            rx,
            snapshot,
            listed,
            history: Vec::new(),
            closed: false,
            lagged: false,
            alternation_error: None,
        })
    }

    pub fn from_parts(rx: tokio::sync::broadcast::Receiver<PeerEvent>, snapshot: Vec<PeerId>) -> Self {
        let listed: BTreeSet<PeerId> = snapshot.iter().copied().collect();
        Self {
            rx,
            snapshot,
            listed,
            history: Vec::new(),
            closed: false,
            lagged: false,
            alternation_error: None,
        }
    }

    /// Pull everything currently queued (non-blocking).
    pub fn drain(&mut self, now_ns: u64) {
        use tokio::sync::broadcast::error::TryRecvError;
        loop {
            match self.rx.try_recv() {
                Ok(ev) => {
                    match &ev {
                        PeerEvent::NewPeer(p) => {
                            if !self.listed.insert(*p) && self.alternation_error.is_none() {
                                self.alternation_error = Some(format!("NewPeer({}) while already listed", short(p)));
                            }
                        }
                        PeerEvent::LostPeer(p, _) => {
                            if !self.listed.remove(p) && self.alternation_error.is_none() {
                                self.alternation_error = Some(format!("LostPeer({}) while not listed", short(p)));
                            }
                        }
                    }
                    self.history.push(EvRec { at_ns: now_ns, ev });
                }
                Err(TryRecvError::Empty) => break,
                Err(TryRecvError::Closed) => {
                    self.closed = true;
                    break;
                }
                Err(TryRecvError::Lagged(_)) => {
                    self.lagged = true;
                }
            }
        }
    }

    pub fn listed_sorted(&self) -> Vec<PeerId> {
        self.listed.iter().copied().collect()
    }
}

pub fn sorted(mut v: Vec<PeerId>) -> Vec<PeerId> {
    v.sort();
    v
}

// ---------------------------------------------------------------------------------------------
// harness service
// ---------------------------------------------------------------------------------------------

#[derive(Clone, Debug)]
pub struct Seen {
    pub at_ns: u64,
    pub id: u64,
    pub peer: Option<PeerId>,
    pub origin: Option<anemo::ConnectionOrigin>,
    pub route: String,
    pub headers: BTreeMap<String, String>,
    pub body: Bytes,
    pub nonce: Option<u64>,
    pub had_extension_marker: bool,
    pub dropped_at_ns: Option<u64>,
    pub completed_at_ns: Option<u64>,
}

#[derive(Default)]
pub struct SvcState {
    pub seen: Vec<Seen>,
    pub inflight: i64,
    pub max_inflight: i64,
}

/// What the harness handler does with one request.
pub struct Plan {
    pub delay: Duration,
    pub response: Response<Bytes>,
    /// the handler is CPU-bound (occupies its worker thread without yielding) for this long from
    /// its first poll: the task that runs it is neither polled nor - when aborted - dropped before
    /// that (`hold_current_task`)
    pub hold: Duration,
}

/// Marker of the one panic that is raised on purpose: the application's handler panicking on a
/// request that carries the header `x-panic` (see runner::install_panic_hook).
pub const DELIBERATE_PANIC: &str = "deliberate-application-handler-panic";

/// Model of "the current task occupies a worker thread of a multi-threaded runtime for `d`
/// without yielding" (tokio::runtime::sim_sched::hold_task in the vendored tokio): everybody
/// else keeps running, this task is not polled again and cannot be dropped before the time is up.
pub fn hold_current_task(d: Duration) {
    if d.is_zero() {
        return;
    }
    if let Some(id) = tokio::task::try_id() {
        let until = tokio::time::Instant::now() + d;
        tokio::runtime::sim_sched::hold_task(id, until);
        // a timer at the release instant, so that the paused clock can advance to it
        tokio::spawn(async move { tokio::time::sleep_until(until).await });
    }
}

/// CPU time one item of the hot resource costs (`busy_on_a_hot_resource`).
pub const BUSY_STEP: Duration = Duration::from_micros(2);

/// Model of a handler that is busy for `d` consuming a resource that is *always ready* (a hot
/// queue, a semaphore with spare permits): it never returns Pending on its own, only tokio's
/// cooperative budget makes it yield (every 128 items). Each item costs `BUSY_STEP` of CPU, which
/// passes on the simulated clock inside the poll (`sim_advance_without_yield` in the vendored
/// tokio) - a task that is always ready would otherwise keep a paused clock from advancing.
pub async fn busy_on_a_hot_resource(d: Duration) {
    if d.is_zero() {
        return;
    }
    let hot = tokio::sync::Semaphore::new(4);
    let end = tokio::time::Instant::now() + d;
    while tokio::time::Instant::now() < end {
        drop(hot.acquire().await);
        tokio::time::sim_advance_without_yield(BUSY_STEP);
    }
}

pub type PlanFn = Arc<dyn Fn(&Request<Bytes>) -> Plan + Send + Sync>;

/// Marker the caller may put into request extensions; must never arrive at a handler.
#[derive(Clone, Debug)]
pub struct LocalMarker(pub u64);

pub struct Svc {
    pub state: Arc<Mutex<SvcState>>,
    pub clones: Arc<AtomicI64>,
    plan: PlanFn,
    fabric: Fabric,
    next_id: Arc<AtomicU64>,
}

impl Svc {
    pub fn new(world: &World, plan: PlanFn) -> Self {
        let clones = Arc::new(AtomicI64::new(1));
        Svc {
            state: Arc::new(Mutex::new(SvcState::default())),
            clones,
            plan,
            fabric: world.fabric.clone(),
            next_id: Arc::new(AtomicU64::new(0)),
        }
    }

    pub fn echo(world: &World) -> Self {
        Self::new(
            world,
            // (optional headers, used by scenarios that want slow or CPU-bound handlers)
            Arc::new(|req: &Request<Bytes>| Plan {
                delay: Duration::from_millis(req.headers().get("x-delay-ms").and_then(|v| v.parse().ok()).unwrap_or(0)),
                response: Response::new(req.body().clone()),
                hold: Duration::from_millis(req.headers().get("x-hold-ms").and_then(|v| v.parse().ok()).unwrap_or(0)),
            }),
        )
    }

    pub fn handle(&self) -> SvcHandle {
        SvcHandle {
            state: self.state.clone(),
            clones: self.clones.clone(),
        }
    }
}

#[derive(Clone)]
pub struct SvcHandle {
    pub state: Arc<Mutex<SvcState>>,
    pub clones: Arc<AtomicI64>,
}

impl SvcHandle {
    pub fn live_clones(&self) -> i64 {
        self.clones.load(Ordering::SeqCst)
    }
    pub fn seen(&self) -> Vec<Seen> {
        self.state.lock().unwrap().seen.clone()
    }
    pub fn inflight(&self) -> i64 {
        self.state.lock().unwrap().inflight
    }
}

impl Clone for Svc {
    fn clone(&self) -> Self {
        self.clones.fetch_add(1, Ordering::SeqCst);
        Svc {
            state: self.state.clone(),
            clones: self.clones.clone(),
            plan: self.plan.clone(),
            fabric: self.fabric.clone(),
            next_id: self.next_id.clone(),
        }
    }
}

impl Drop for Svc {
    fn drop(&mut self) {
        self.clones.fetch_sub(1, Ordering::SeqCst);
    }
}

struct HandlerGuard {
    state: Arc<Mutex<SvcState>>,
    fabric: Fabric,
    id: u64,
    done: bool,
}

impl Drop for HandlerGuard {
    fn drop(&mut self) {
        let now = self.fabric.now_ns();
        let mut s = self.state.lock().unwrap();
        s.inflight -= 1;
        let idx = self.id as usize;
        let e = if s.seen.get(idx).map(|e| e.id == self.id).unwrap_or(false) {
            s.seen.get_mut(idx)
        } else {
            s.seen.iter_mut().find(|e| e.id == self.id)
        };
        if let Some(e) = e {
            if self.done {
                e.completed_at_ns = Some(now);
            } else {
                e.dropped_at_ns = Some(now);
            }
        }
    }
}

impl tower::Service<Request<Bytes>> for Svc {
    type Response = Response<Bytes>;
    type Error = Infallible;
    type Future = Pin<Box<dyn Future<Output = Result<Response<Bytes>, Infallible>> + Send>>;

    fn poll_ready(&mut self, _cx: &mut Context<'_>) -> Poll<Result<(), Infallible>> {
        Poll::Ready(Ok(()))
    }

    fn call(&mut self, req: Request<Bytes>) -> Self::Future {
        let id = self.next_id.fetch_add(1, Ordering::SeqCst);
        let now = self.fabric.now_ns();
        let plan = (self.plan)(&req);
        {
            let mut s = self.state.lock().unwrap();
            s.inflight += 1;
            s.max_inflight = s.max_inflight.max(s.inflight);
            s.seen.push(Seen {
                at_ns: now,
                id,
                peer: req.peer_id().copied(),
                origin: req.extensions().get::<anemo::ConnectionOrigin>().copied(),
                route: req.route().to_string(),
                headers: req.headers().iter().map(|(k, v)| (k.clone(), v.clone())).collect(),
                body: req.body().clone(),
                nonce: req.headers().get("x-nonce").and_then(|v| v.parse().ok()),
                had_extension_marker: req.extensions().get::<LocalMarker>().is_some(),
                dropped_at_ns: None,
                completed_at_ns: None,
            });
        }
        let mut guard = HandlerGuard {
            state: self.state.clone(),
            fabric: self.fabric.clone(),
            id,
            done: false,
        };
        let poison = req.headers().contains_key("x-panic");
        let busy = Duration::from_millis(req.headers().get("x-busy-ms").and_then(|v| v.parse().ok()).unwrap_or(0));
        // a synchronous, CPU-bound stretch at the start of the handler's first poll
        let burn = Duration::from_millis(req.headers().get("x-burn-ms").and_then(|v| v.parse().ok()).unwrap_or(0));
        Box::pin(async move {
            if poison {
                panic!("{DELIBERATE_PANIC}");
            }
            hold_current_task(plan.hold);
            if !burn.is_zero() {
                tokio::time::sim_advance_without_yield(burn);
            }
            busy_on_a_hot_resource(busy).await;
            if !plan.delay.is_zero() {
                tokio::time::sleep(plan.delay).await;
            }
            guard.done = true;
            drop(guard);
            Ok(plan.response)
        })
    }
}

// ---------------------------------------------------------------------------------------------
// the harness service behind anemo's typed-RPC server path (what generated servers use)
// ---------------------------------------------------------------------------------------------

#[derive(Clone)]
struct StatusSvc(Svc);

impl tower::Service<Request<Bytes>> for StatusSvc {
    type Response = Response<Bytes>;
    type Error = anemo::rpc::Status;
    type Future = Pin<Box<dyn Future<Output = Result<Response<Bytes>, anemo::rpc::Status>> + Send>>;
    fn poll_ready(&mut self, _cx: &mut Context<'_>) -> Poll<Result<(), Self::Error>> {
        Poll::Ready(Ok(()))
    }
    fn call(&mut self, req: Request<Bytes>) -> Self::Future {
        let f = tower::Service::call(&mut self.0, req);
        Box::pin(async move { Ok(f.await.unwrap()) })
    }
}

/// `Svc` reached through `anemo::rpc::server::Rpc::unary` with the identity codec, i.e. the way an
/// anemo-build generated server dispatches a method.
#[derive(Clone)]
pub struct TypedSvc(pub Svc);

impl tower::Service<Request<Bytes>> for TypedSvc {
    type Response = Response<Bytes>;
    type Error = Infallible;
    type Future = Pin<Box<dyn Future<Output = Result<Response<Bytes>, Infallible>> + Send>>;
    fn poll_ready(&mut self, _cx: &mut Context<'_>) -> Poll<Result<(), Infallible>> {
        Poll::Ready(Ok(()))
    }
    fn call(&mut self, req: Request<Bytes>) -> Self::Future {
        let inner = StatusSvc(self.0.clone());
        Box::pin(async move {
            use anemo::rpc::codec::IdentityCodec;
            let mut rpc = anemo::rpc::server::Rpc::new(IdentityCodec::new("bytes"), IdentityCodec::new("bytes"));
            Ok(rpc.unary(inner, req).await)
        })
    }
}
