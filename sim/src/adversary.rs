//! Hostile / non-anemo peers: raw quinn endpoints on the fabric with hand-built rustls
//! configurations, certificate forgery helpers.

use crate::fabric::SimRuntime;
use crate::world::{addr_port, World};
use rustls::pki_types::{CertificateDer, PrivateKeyDer, ServerName, UnixTime};
use std::net::SocketAddr;
use std::sync::{Arc, Mutex};

pub fn key_der(key: &[u8; 32]) -> PrivateKeyDer<'static> {
    use pkcs8::EncodePrivateKey;
    let kp = ed25519::KeypairBytes {
        secret_key: *key,
        public_key: None,
    };
    let pkcs8 = kp.to_pkcs8_der().unwrap();
    PrivateKeyDer::Pkcs8(pkcs8.as_bytes().to_vec().into())
}

fn rcgen_keypair(key: &[u8; 32]) -> rcgen::KeyPair {
    rcgen::KeyPair::from_der_and_sign_algo(&key_der(key), &rcgen::PKCS_ED25519).unwrap()
}

/// The certificate anemo itself would generate for (key, name): deterministic per key.
pub fn gen_cert(key: &[u8; 32], name: &str) -> CertificateDer<'static> {
    let kp = rcgen_keypair(key);
    rcgen::CertificateParams::new(vec![name.to_owned()])
        .unwrap()
        .self_signed(&kp)
        .unwrap()
        .der()
        .to_owned()
}

pub fn gen_cert_names(key: &[u8; 32], names: &[&str]) -> CertificateDer<'static> {
    let kp = rcgen_keypair(key);
    rcgen::CertificateParams::new(names.iter().map(|s| s.to_string()).collect::<Vec<_>>())
        .unwrap()
        .self_signed(&kp)
        .unwrap()
        .der()
        .to_owned()
}

/// Certificate whose validity window is [from, to] (years).
pub fn gen_cert_validity(key: &[u8; 32], name: &str, from_year: i32, to_year: i32) -> CertificateDer<'static> {
    let kp = rcgen_keypair(key);
    let mut p = rcgen::CertificateParams::new(vec![name.to_owned()]).unwrap();
    p.not_before = rcgen::date_time_ymd(from_year, 1, 1);
    p.not_after = rcgen::date_time_ymd(to_year, 1, 1);
    p.self_signed(&kp).unwrap().der().to_owned()
}

/// Certificate carrying `subject_key`'s public key (SPKI) but signed by `signer_key`
/// ("re-signed with another key"): an issuer certificate for signer, then subject signed by it.
pub fn gen_cert_spki_signed_by(subject_key: &[u8; 32], signer_key: &[u8; 32], name: &str) -> CertificateDer<'static> {
    let subject = rcgen_keypair(subject_key);
    let signer = rcgen_keypair(signer_key);
    let issuer_params = rcgen::CertificateParams::new(vec![name.to_owned()]).unwrap();
    let issuer_cert = issuer_params.self_signed(&signer).unwrap();
    let p = rcgen::CertificateParams::new(vec![name.to_owned()]).unwrap();
    p.signed_by(&subject, &issuer_cert, &signer).unwrap().der().to_owned()
}

#[derive(Debug)]
pub struct FixedCert {
    key: Arc<rustls::sign::CertifiedKey>,
    pub sni_seen: Arc<Mutex<Vec<Option<String>>>>,
    present: bool,
}

impl rustls::client::ResolvesClientCert for FixedCert {
    fn resolve(&self, _: &[&[u8]], _: &[rustls::SignatureScheme]) -> Option<Arc<rustls::sign::CertifiedKey>> {
        self.present.then(|| self.key.clone())
    }
    fn has_certs(&self) -> bool {
        self.present
    }
}

impl rustls::server::ResolvesServerCert for FixedCert {
    fn resolve(&self, hello: rustls::server::ClientHello<'_>) -> Option<Arc<rustls::sign::CertifiedKey>> {
        self.sni_seen.lock().unwrap().push(hello.server_name().map(|s| s.to_string()));
        Some(self.key.clone())
    }
}

#[derive(Debug)]
pub struct AcceptAny {
    pub certs_seen: Arc<Mutex<Vec<Vec<u8>>>>,
    pub require_client_cert: bool,
}

impl rustls::client::danger::ServerCertVerifier for AcceptAny {
    fn verify_server_cert(&self, ee: &CertificateDer<'_>, _: &[CertificateDer<'_>], _: &ServerName<'_>, _: &[u8], _: UnixTime) -> Result<rustls::client::danger::ServerCertVerified, rustls::Error> {
        self.certs_seen.lock().unwrap().push(ee.as_ref().to_vec());
        Ok(rustls::client::danger::ServerCertVerified::assertion())
    }
    fn verify_tls12_signature(&self, _: &[u8], _: &CertificateDer<'_>, _: &rustls::DigitallySignedStruct) -> Result<rustls::client::danger::HandshakeSignatureValid, rustls::Error> {
        Ok(rustls::client::danger::HandshakeSignatureValid::assertion())
    }
    fn verify_tls13_signature(&self, _: &[u8], _: &CertificateDer<'_>, _: &rustls::DigitallySignedStruct) -> Result<rustls::client::danger::HandshakeSignatureValid, rustls::Error> {
        Ok(rustls::client::danger::HandshakeSignatureValid::assertion())
    }
    fn supported_verify_schemes(&self) -> Vec<rustls::SignatureScheme> {
        vec![rustls::SignatureScheme::ED25519, rustls::SignatureScheme::ECDSA_NISTP256_SHA256]
    }
}

impl rustls::server::danger::ClientCertVerifier for AcceptAny {
    fn root_hint_subjects(&self) -> &[rustls::DistinguishedName] {
        &[]
    }
    fn client_auth_mandatory(&self) -> bool {
        self.require_client_cert
    }
    fn verify_client_cert(&self, ee: &CertificateDer<'_>, _: &[CertificateDer<'_>], _: UnixTime) -> Result<rustls::server::danger::ClientCertVerified, rustls::Error> {
        self.certs_seen.lock().unwrap().push(ee.as_ref().to_vec());
        Ok(rustls::server::danger::ClientCertVerified::assertion())
    }
    fn verify_tls12_signature(&self, _: &[u8], _: &CertificateDer<'_>, _: &rustls::DigitallySignedStruct) -> Result<rustls::client::danger::HandshakeSignatureValid, rustls::Error> {
        Ok(rustls::client::danger::HandshakeSignatureValid::assertion())
    }
    fn verify_tls13_signature(&self, _: &[u8], _: &CertificateDer<'_>, _: &rustls::DigitallySignedStruct) -> Result<rustls::client::danger::HandshakeSignatureValid, rustls::Error> {
        Ok(rustls::client::danger::HandshakeSignatureValid::assertion())
    }
    fn supported_verify_schemes(&self) -> Vec<rustls::SignatureScheme> {
        vec![rustls::SignatureScheme::ED25519, rustls::SignatureScheme::ECDSA_NISTP256_SHA256]
    }
}

pub struct AdvSpec {
    pub idx: u8,
    pub port: u16,
    /// Certificate chain presented (first = end entity).
    pub chain: Vec<CertificateDer<'static>>,
    /// Ed25519 private key the adversary actually holds and signs the handshake with.
    pub sign_key: [u8; 32],
    pub present_client_cert: bool,
    pub idle_ms: u64,
    pub keep_alive_ms: Option<u64>,
    pub max_bidi: u32,
}

pub struct Adv {
    pub ep: quinn::Endpoint,
    pub addr: SocketAddr,
    pub client: quinn::ClientConfig,
    pub sni_seen: Arc<Mutex<Vec<Option<String>>>>,
    pub peer_certs_seen: Arc<Mutex<Vec<Vec<u8>>>>,
    pub rt: Arc<SimRuntime>,
}

/// A raw QUIC endpoint on the fabric (accepts any peer certificate, presents what it is told to).
pub fn adv_endpoint(w: &World, spec: AdvSpec) -> Adv {
    let addr = addr_port(spec.idx, spec.port);
    let socket = w.fabric.bind(addr).expect("adv bind");
    let provider = Arc::new(rustls::crypto::ring::default_provider());
    let signer = rustls::crypto::ring::sign::any_supported_type(&key_der(&spec.sign_key)).unwrap();
    let ck = Arc::new(rustls::sign::CertifiedKey::new(spec.chain.clone(), signer));
    let sni_seen = Arc::new(Mutex::new(Vec::new()));
    let peer_certs_seen = Arc::new(Mutex::new(Vec::new()));
    let resolver = Arc::new(FixedCert {
        key: ck,
        sni_seen: sni_seen.clone(),
        present: spec.present_client_cert,
    });
    let verifier = Arc::new(AcceptAny {
        certs_seen: peer_certs_seen.clone(),
        require_client_cert: false,
    });
    let client_crypto = rustls::ClientConfig::builder_with_provider(provider.clone())
        .with_protocol_versions(&[&rustls::version::TLS13])
        .unwrap()
        .dangerous()
        .with_custom_certificate_verifier(verifier.clone())
        .with_client_cert_resolver(resolver.clone());
    let mut transport = quinn::TransportConfig::default();
    transport.max_idle_timeout(Some(quinn::VarInt::from_u32(spec.idle_ms as u32).into()));
    transport.keep_alive_interval(spec.keep_alive_ms.map(std::time::Duration::from_millis));
    transport.max_concurrent_bidi_streams(spec.max_bidi.into());
    let transport = Arc::new(transport);
    let mut client = quinn::ClientConfig::new(Arc::new(quinn::crypto::rustls::QuicClientConfig::try_from(client_crypto).unwrap()));
    client.transport_config(transport.clone());
    let server_crypto = rustls::ServerConfig::builder_with_provider(provider)
        .with_protocol_versions(&[&rustls::version::TLS13])
        .unwrap()
        .with_client_cert_verifier(verifier)
        .with_cert_resolver(resolver);
    let mut server = quinn::ServerConfig::with_crypto(Arc::new(quinn::crypto::rustls::QuicServerConfig::try_from(server_crypto).unwrap()));
    server.transport = transport;
    let mut ep_cfg = quinn::EndpointConfig::default();
    let mut seed = w.choice.bytes32(&format!("quinn-adv:{}:{}", spec.idx, spec.port));
    seed[0] ^= spec.idx;
    ep_cfg.rng_seed(Some(seed));
    let rt = Arc::new(SimRuntime::default());
    let ep = quinn::Endpoint::new_with_abstract_socket(ep_cfg, Some(server), socket, rt.clone()).unwrap();
    Adv {
        ep,
        addr,
        client,
        sni_seen,
        peer_certs_seen,
        rt,
    }
}

impl Adv {
    /// Dial `to` claiming `sni`; on success wait for anemo's acknowledgement (uni stream with the
    /// 8-byte version frame), which is what tells a dialer that the listener admitted it.
    pub async fn dial(&self, to: SocketAddr, sni: &str, ack_wait_ms: u64) -> Result<quinn::Connection, String> {
        let c = self
            .ep
            .connect_with(self.client.clone(), to, sni)
            .map_err(|e| format!("connect: {e}"))?
            .await
            .map_err(|e| format!("handshake: {e}"))?;
        let ack = async {
            let mut s = c.accept_uni().await.map_err(|e| format!("ack-accept: {e}"))?;
            let mut buf = [0u8; 8];
            s.read_exact(&mut buf).await.map_err(|e| format!("ack-read: {e}"))?;
            Ok::<_, String>(buf)
        };
        match tokio::time::timeout(std::time::Duration::from_millis(ack_wait_ms), ack).await {
            Ok(Ok(buf)) if buf == crate::model::wire::preamble(1) => Ok(c),
            Ok(Ok(buf)) => Err(format!("ack-bytes: {buf:?}")),
            Ok(Err(e)) => Err(e),
            Err(_) => Err("ack-timeout".into()),
        }
    }

    /// Accept one inbound connection and play the listener's side of anemo's acknowledgement.
    pub async fn accept_and_ack(&self) -> Result<quinn::Connection, String> {
        let inc = self.ep.accept().await.ok_or("endpoint closed")?;
        let c = inc.await.map_err(|e| format!("handshake: {e}"))?;
        let mut s = c.open_uni().await.map_err(|e| format!("open_uni: {e}"))?;
        s.write_all(&crate::model::wire::preamble(1)).await.map_err(|e| format!("write: {e}"))?;
        s.finish().map_err(|e| format!("finish: {e}"))?;
        let _ = s.stopped().await;
        Ok(c)
    }
}
