//! Hostile / non-anemo peers: raw quinn endpoints on the fabric with hand-built rustls
//! configurations, certificate forgery helpers.

use crate::fabric::SimRuntime;
use crate::world::{addr_port, World};
use rustls::pki_types::{CertificateDer, PrivateKeyDer, ServerName, UnixTime};
use std::net::SocketAddr;
use std::sync::{Arc, Mutex};

pub fn key_der(key: &[u8; 32]) -> PrivateKeyDer<'static> {
    use pkcs8::EncodePrivateKey;
    let kp = ed25519::KeypairBytes {
        secret_key: *key,
        public_key: None,
    };
    let pkcs8 = kp.to_pkcs8_der().unwrap();
    PrivateKeyDer::Pkcs8(pkcs8.as_bytes().to_vec().into())
}

fn rcgen_keypair(key: &[u8; 32]) -> rcgen::KeyPair {
    rcgen::KeyPair::from_der_and_sign_algo(&key_der(key), &rcgen::PKCS_ED25519).unwrap()
}

/// The certificate anemo itself would generate for (key, name): deterministic per key.
pub fn gen_cert(key: &[u8; 32], name: &str) -> CertificateDer<'static> {
    let kp = rcgen_keypair(key);
    rcgen::CertificateParams::new(vec![name.to_owned()])
        .unwrap()
        .self_signed(&kp)
        .unwrap()
        .der()
        .to_owned()
}

/// A correctly self-signed certificate for `key` whose subject (and issuer) common name is `cn` -
/// e.g. the text form of somebody else's identity. A name is a claim, not a proof.
pub fn gen_cert_common_name(key: &[u8; 32], name: &str, cn: &str) -> CertificateDer<'static> {
    let kp = rcgen_keypair(key);
    let mut p = rcgen::CertificateParams::new(vec![name.to_owned()]).unwrap();
    p.distinguished_name = rcgen::DistinguishedName::new();
    p.distinguished_name.push(rcgen::DnType::CommonName, cn);
    p.self_signed(&kp).unwrap().der().to_owned()
}

/// A correctly self-signed certificate for `own_key` whose issuer and subject names carry, as the
/// bytes of their common name, a complete Ed25519 SubjectPublicKeyInfo for `embedded` - placed
/// before the certificate's real key in the encoding. Whoever presents it proves possession of
/// `own_key` only.
pub fn gen_cert_embedding_spki(own_key: &[u8; 32], embedded: &[u8; 32], name: &str) -> CertificateDer<'static> {
    const MARK: &str = "QQQQQQQQQQQQQQQQQQQQQQQQQQQQQQQQQQQQQQQQQQQQ"; // 44 bytes = 12 header + 32 key
    let kp = rcgen_keypair(own_key);
    let mut p = rcgen::CertificateParams::new(vec![name.to_owned()]).unwrap();
    let mut dn = rcgen::DistinguishedName::new();
    dn.push(rcgen::DnType::CommonName, MARK);
    p.distinguished_name = dn;
    let mut der = p.self_signed(&kp).unwrap().der().to_vec();
    let mut spki = vec![0x30, 0x2a, 0x30, 0x05, 0x06, 0x03, 0x2b, 0x65, 0x70, 0x03, 0x21, 0x00];
    spki.extend_from_slice(embedded);
    assert_eq!(spki.len(), MARK.len());
    let mut i = 0;
    let mut replaced = 0;
    while i + MARK.len() <= der.len() {
        if &der[i..i + MARK.len()] == MARK.as_bytes() {
            der[i..i + MARK.len()].copy_from_slice(&spki);
            // UTF8String -> T61String: any byte is a legal character there
            if i >= 2 && der[i - 2] == 0x0c {
                der[i - 2] = 0x14;
            }
            replaced += 1;
            i += MARK.len();
        } else {
            i += 1;
        }
    }
    assert_eq!(replaced, 2, "issuer and subject");
    // re-sign the (same-length) TBSCertificate with the own key; an Ed25519 signature is the last 64 bytes
    assert!(der[0] == 0x30 && der[1] == 0x82 && der[4] == 0x30);
    let (hdr, len) = match der[5] {
        0x82 => (4usize, ((der[6] as usize) << 8) | der[7] as usize),
        0x81 => (3usize, der[6] as usize),
        l => (2usize, l as usize),
    };
    let tbs = der[4..4 + hdr + len].to_vec();
    let signer = ring::signature::Ed25519KeyPair::from_seed_unchecked(own_key).unwrap();
    let sig = signer.sign(&tbs);
    let n = der.len();
    der[n - 64..].copy_from_slice(sig.as_ref());
    CertificateDer::from(der)
}

/// A signing key that labels its CertificateVerify signature with an arbitrary scheme and signs
/// with junk: what a party without the certificate's private key can always do.
#[derive(Debug)]
pub struct MislabelledKey(pub rustls::SignatureScheme);

impl rustls::sign::SigningKey for MislabelledKey {
    fn choose_scheme(&self, _offered: &[rustls::SignatureScheme]) -> Option<Box<dyn rustls::sign::Signer>> {
        Some(Box::new(MislabelledKey(self.0)))
    }
    fn algorithm(&self) -> rustls::SignatureAlgorithm {
        rustls::SignatureAlgorithm::ED25519
    }
}

impl rustls::sign::Signer for MislabelledKey {
    fn sign(&self, message: &[u8]) -> Result<Vec<u8>, rustls::Error> {
        Ok(message.iter().cycle().take(64).map(|b| b ^ 0x5a).collect())
    }
    fn scheme(&self) -> rustls::SignatureScheme {
        self.0
    }
}

/// A correctly self-signed certificate for `key` with the given DNS names (possibly none at all)
/// and, optionally, a subject alternative name that is not a DNS name (an IP address or a URI).
pub fn gen_cert_shape(key: &[u8; 32], dns: &[String], non_dns: Option<u8>) -> CertificateDer<'static> {
    let kp = rcgen_keypair(key);
    let mut p = rcgen::CertificateParams::new(dns.to_vec()).unwrap();
    match non_dns {
        Some(0) => p.subject_alt_names.push(rcgen::SanType::IpAddress(std::net::IpAddr::from([10, 77, 0, 9]))),
        Some(_) => p.subject_alt_names.push(rcgen::SanType::URI("spiffe://anemo/peer".try_into().unwrap())),
        None => {}
    }
    p.self_signed(&kp).unwrap().der().to_owned()
}

pub fn gen_cert_names(key: &[u8; 32], names: &[&str]) -> CertificateDer<'static> {
    let kp = rcgen_keypair(key);
    rcgen::CertificateParams::new(names.iter().map(|s| s.to_string()).collect::<Vec<_>>())
        .unwrap()
        .self_signed(&kp)
        .unwrap()
        .der()
        .to_owned()
}

/// Certificate whose validity window is [from, to] (years).
pub fn gen_cert_validity(key: &[u8; 32], name: &str, from_year: i32, to_year: i32) -> CertificateDer<'static> {
    let kp = rcgen_keypair(key);
    let mut p = rcgen::CertificateParams::new(vec![name.to_owned()]).unwrap();
    p.not_before = rcgen::date_time_ymd(from_year, 1, 1);
    p.not_after = rcgen::date_time_ymd(to_year, 1, 1);
    p.self_signed(&kp).unwrap().der().to_owned()
}

/// Certificate carrying `subject_key`'s public key (SPKI) but signed by `signer_key`
/// ("re-signed with another key"): an issuer certificate for signer, then subject signed by it.
pub fn gen_cert_spki_signed_by(subject_key: &[u8; 32], signer_key: &[u8; 32], name: &str) -> CertificateDer<'static> {
    let subject = rcgen_keypair(subject_key);
    let signer = rcgen_keypair(signer_key);
    let issuer_params = rcgen::CertificateParams::new(vec![name.to_owned()]).unwrap();
    let issuer_cert = issuer_params.self_signed(&signer).unwrap();
    let p = rcgen::CertificateParams::new(vec![name.to_owned()]).unwrap();
    p.signed_by(&subject, &issuer_cert, &signer).unwrap().der().to_owned()
}

#[derive(Debug)]
pub struct FixedCert {
    key: Arc<rustls::sign::CertifiedKey>,
    pub sni_seen: Arc<Mutex<Vec<Option<String>>>>,
    present: bool,
}

impl rustls::client::ResolvesClientCert for FixedCert {
    fn resolve(&self, _: &[&[u8]], _: &[rustls::SignatureScheme]) -> Option<Arc<rustls::sign::CertifiedKey>> {
        self.present.then(|| self.key.clone())
    }
    fn has_certs(&self) -> bool {
        self.present
    }
}

impl rustls::server::ResolvesServerCert for FixedCert {
    fn resolve(&self, hello: rustls::server::ClientHello<'_>) -> Option<Arc<rustls::sign::CertifiedKey>> {
        self.sni_seen.lock().unwrap().push(hello.server_name().map(|s| s.to_string()));
        Some(self.key.clone())
    }
}

#[derive(Debug)]
pub struct AcceptAny {
    pub certs_seen: Arc<Mutex<Vec<Vec<u8>>>>,
    pub require_client_cert: bool,
}

impl rustls::client::danger::ServerCertVerifier for AcceptAny {
    fn verify_server_cert(&self, ee: &CertificateDer<'_>, _: &[CertificateDer<'_>], _: &ServerName<'_>, _: &[u8], _: UnixTime) -> Result<rustls::client::danger::ServerCertVerified, rustls::Error> {
        self.certs_seen.lock().unwrap().push(ee.as_ref().to_vec());
        Ok(rustls::client::danger::ServerCertVerified::assertion())
    }
    fn verify_tls12_signature(&self, _: &[u8], _: &CertificateDer<'_>, _: &rustls::DigitallySignedStruct) -> Result<rustls::client::danger::HandshakeSignatureValid, rustls::Error> {
        Ok(rustls::client::danger::HandshakeSignatureValid::assertion())
    }
    fn verify_tls13_signature(&self, _: &[u8], _: &CertificateDer<'_>, _: &rustls::DigitallySignedStruct) -> Result<rustls::client::danger::HandshakeSignatureValid, rustls::Error> {
        Ok(rustls::client::danger::HandshakeSignatureValid::assertion())
    }
    fn supported_verify_schemes(&self) -> Vec<rustls::SignatureScheme> {
        vec![rustls::SignatureScheme::ED25519, rustls::SignatureScheme::ECDSA_NISTP256_SHA256]
    }
}

impl rustls::server::danger::ClientCertVerifier for AcceptAny {
    fn root_hint_subjects(&self) -> &[rustls::DistinguishedName] {
        &[]
    }
    fn client_auth_mandatory(&self) -> bool {
        self.require_client_cert
    }
    fn verify_client_cert(&self, ee: &CertificateDer<'_>, _: &[CertificateDer<'_>], _: UnixTime) -> Result<rustls::server::danger::ClientCertVerified, rustls::Error> {
        self.certs_seen.lock().unwrap().push(ee.as_ref().to_vec());
        Ok(rustls::server::danger::ClientCertVerified::assertion())
    }
    fn verify_tls12_signature(&self, _: &[u8], _: &CertificateDer<'_>, _: &rustls::DigitallySignedStruct) -> Result<rustls::client::danger::HandshakeSignatureValid, rustls::Error> {
        Ok(rustls::client::danger::HandshakeSignatureValid::assertion())
    }
    fn verify_tls13_signature(&self, _: &[u8], _: &CertificateDer<'_>, _: &rustls::DigitallySignedStruct) -> Result<rustls::client::danger::HandshakeSignatureValid, rustls::Error> {
        Ok(rustls::client::danger::HandshakeSignatureValid::assertion())
    }
    fn supported_verify_schemes(&self) -> Vec<rustls::SignatureScheme> {
        vec![rustls::SignatureScheme::ED25519, rustls::SignatureScheme::ECDSA_NISTP256_SHA256]
    }
}

pub struct AdvSpec {
    pub idx: u8,
    pub port: u16,
    /// Certificate chain presented (first = end entity).
    pub chain: Vec<CertificateDer<'static>>,
    /// Ed25519 private key the adversary actually holds and signs the handshake with.
    pub sign_key: [u8; 32],
    pub present_client_cert: bool,
    pub idle_ms: u64,
    pub keep_alive_ms: Option<u64>,
    pub max_bidi: u32,
}

pub struct Adv {
    pub ep: quinn::Endpoint,
    pub addr: SocketAddr,
    pub client: quinn::ClientConfig,
    /// the same client configuration, sending no server name in its hello
    pub client_no_sni: quinn::ClientConfig,
    pub sni_seen: Arc<Mutex<Vec<Option<String>>>>,
    pub peer_certs_seen: Arc<Mutex<Vec<Vec<u8>>>>,
    pub rt: Arc<SimRuntime>,
}

/// A raw QUIC endpoint on the fabric (accepts any peer certificate, presents what it is told to).
pub fn adv_endpoint(w: &World, spec: AdvSpec) -> Adv {
    adv_endpoint_signing(w, spec, None)
}

/// Like [`adv_endpoint`]; with `mislabel` the handshake signature is junk labelled with that scheme.
pub fn adv_endpoint_signing(w: &World, spec: AdvSpec, mislabel: Option<rustls::SignatureScheme>) -> Adv {
    let addr = addr_port(spec.idx, spec.port);
    let socket = w.fabric.bind(addr).expect("adv bind");
    let provider = Arc::new(rustls::crypto::ring::default_provider());
    let signer: Arc<dyn rustls::sign::SigningKey> = match mislabel {
        Some(s) => Arc::new(MislabelledKey(s)),
        None => rustls::crypto::ring::sign::any_supported_type(&key_der(&spec.sign_key)).unwrap(),
    };
    let ck = Arc::new(rustls::sign::CertifiedKey::new(spec.chain.clone(), signer));
    let sni_seen = Arc::new(Mutex::new(Vec::new()));
    let peer_certs_seen = Arc::new(Mutex::new(Vec::new()));
    let resolver = Arc::new(FixedCert {
        key: ck,
        sni_seen: sni_seen.clone(),
        present: spec.present_client_cert,
    });
    let verifier = Arc::new(AcceptAny {
        certs_seen: peer_certs_seen.clone(),
        require_client_cert: false,
    });
    let client_crypto = rustls::ClientConfig::builder_with_provider(provider.clone())
        .with_protocol_versions(&[&rustls::version::TLS13])
        .unwrap()
        .dangerous()
        .with_custom_certificate_verifier(verifier.clone())
        .with_client_cert_resolver(resolver.clone());
    let mut transport = quinn::TransportConfig::default();
    transport.max_idle_timeout(Some(quinn::VarInt::from_u32(spec.idle_ms as u32).into()));
    transport.keep_alive_interval(spec.keep_alive_ms.map(std::time::Duration::from_millis));
    transport.max_concurrent_bidi_streams(spec.max_bidi.into());
    let transport = Arc::new(transport);
    let mut crypto_no_sni = client_crypto.clone();
    crypto_no_sni.enable_sni = false;
    let mut client = quinn::ClientConfig::new(Arc::new(quinn::crypto::rustls::QuicClientConfig::try_from(client_crypto).unwrap()));
    client.transport_config(transport.clone());
    let mut client_no_sni = quinn::ClientConfig::new(Arc::new(quinn::crypto::rustls::QuicClientConfig::try_from(crypto_no_sni).unwrap()));
    client_no_sni.transport_config(transport.clone());
    let server_crypto = rustls::ServerConfig::builder_with_provider(provider)
        .with_protocol_versions(&[&rustls::version::TLS13])
        .unwrap()
        .with_client_cert_verifier(verifier)
        .with_cert_resolver(resolver);
    let mut server = quinn::ServerConfig::with_crypto(Arc::new(quinn::crypto::rustls::QuicServerConfig::try_from(server_crypto).unwrap()));
    server.transport = transport;
    let mut ep_cfg = quinn::EndpointConfig::default();
    let mut seed = w.choice.bytes32(&format!("quinn-adv:{}:{}", spec.idx, spec.port));
    seed[0] ^= spec.idx;
    ep_cfg.rng_seed(Some(seed));
    let rt = Arc::new(SimRuntime::default());
    let ep = quinn::Endpoint::new_with_abstract_socket(ep_cfg, Some(server), socket, rt.clone()).unwrap();
    Adv {
        ep,
        addr,
        client,
        client_no_sni,
        sni_seen,
        peer_certs_seen,
        rt,
    }
}

impl Adv {
    /// Dial `to` claiming `sni`; on success wait for anemo's acknowledgement (uni stream with the
    /// 8-byte version frame), which is what tells a dialer that the listener admitted it.
    pub async fn dial(&self, to: SocketAddr, sni: &str, ack_wait_ms: u64) -> Result<quinn::Connection, String> {
        self.dial_with(self.client.clone(), to, sni, ack_wait_ms).await
    }

    /// Dial without a server name in the hello (the name is only used locally by rustls).
    pub async fn dial_no_sni(&self, to: SocketAddr, ack_wait_ms: u64) -> Result<quinn::Connection, String> {
        self.dial_with(self.client_no_sni.clone(), to, "no-sni.invalid", ack_wait_ms).await
    }

    pub async fn dial_with(&self, cfg: quinn::ClientConfig, to: SocketAddr, sni: &str, ack_wait_ms: u64) -> Result<quinn::Connection, String> {
        let c = self
            .ep
            .connect_with(cfg, to, sni)
            .map_err(|e| format!("connect: {e}"))?
            .await
            .map_err(|e| format!("handshake: {e}"))?;
        let ack = async {
            let mut s = c.accept_uni().await.map_err(|e| format!("ack-accept: {e}"))?;
            let mut buf = [0u8; 8];
            s.read_exact(&mut buf).await.map_err(|e| format!("ack-read: {e}"))?;
            Ok::<_, String>(buf)
        };
        match tokio::time::timeout(std::time::Duration::from_millis(ack_wait_ms), ack).await {
            Ok(Ok(buf)) if buf == crate::model::wire::preamble(1) => Ok(c),
            Ok(Ok(buf)) => Err(format!("ack-bytes: {buf:?}")),
            Ok(Err(e)) => Err(e),
            Err(_) => Err("ack-timeout".into()),
        }
    }

    /// Accept one inbound connection and play the listener's side of anemo's acknowledgement.
    pub async fn accept_and_ack(&self) -> Result<quinn::Connection, String> {
        let inc = self.ep.accept().await.ok_or("endpoint closed")?;
        let c = inc.await.map_err(|e| format!("handshake: {e}"))?;
        let mut s = c.open_uni().await.map_err(|e| format!("open_uni: {e}"))?;
        s.write_all(&crate::model::wire::preamble(1)).await.map_err(|e| format!("write: {e}"))?;
        s.finish().map_err(|e| format!("finish: {e}"))?;
        let _ = s.stopped().await;
        Ok(c)
    }
}
