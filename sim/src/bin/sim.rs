use anemo_sim::runner::{self, BatchOpts};
use anemo_sim::scen;
use anemo_sim::world::Tier;
use std::time::Duration;

/// The monotonic clock seam (see `anemo_sim::vclock`): this definition takes the place of libc's
/// for every caller linked into this binary, std's `Instant::now()` included.
#[no_mangle]
pub unsafe extern "C" fn clock_gettime(clk: libc::clockid_t, ts: *mut libc::timespec) -> libc::c_int {
    if matches!(clk, libc::CLOCK_MONOTONIC | libc::CLOCK_MONOTONIC_RAW | libc::CLOCK_MONOTONIC_COARSE | libc::CLOCK_BOOTTIME) {
        if let Some(ns) = anemo_sim::vclock::virtual_monotonic_ns() {
            (*ts).tv_sec = (ns / 1_000_000_000) as libc::time_t;
            (*ts).tv_nsec = (ns % 1_000_000_000) as libc::c_long;
            return 0;
        }
    }
    libc::syscall(libc::SYS_clock_gettime, clk as libc::c_long, ts) as libc::c_int
}

fn usage() -> ! {
    eprintln!("usage: sim check <ID> [--tier quick|thorough] [--seed N] [--runs N] [--workers N] [--scenario NAME]\n       sim replay <file>\n       sim selftest [--n N] [--workers N] [--print] [--only ID]\n       sim list");
    std::process::exit(2)
}

fn arg(args: &[String], name: &str) -> Option<String> {
    args.iter().position(|a| a == name).and_then(|i| args.get(i + 1).cloned())
}

fn main() {
    // anyhow/std capture a backtrace for every error value when RUST_BACKTRACE is set; error paths
    // are the common case here (refused handshakes, truncated frames), so switch library
    // backtraces off (panic backtraces are unaffected). Done before any thread is started.
    std::env::set_var("RUST_LIB_BACKTRACE", "0");
    if std::env::var("VERIF_TRACING").is_ok() {
        use tracing_subscriber::{EnvFilter, FmtSubscriber};
        let sub = FmtSubscriber::builder().with_env_filter(EnvFilter::new(std::env::var("VERIF_TRACING").unwrap())).with_writer(std::io::stderr).without_time().finish();
        let _ = tracing::subscriber::set_global_default(sub);
    }
    let args: Vec<String> = std::env::args().skip(1).collect();
    let verif_dir = std::env::var("VERIF_DIR").unwrap_or_else(|_| "/verif".into());
    let workers: usize = arg(&args, "--workers")
        .or_else(|| std::env::var("VERIF_WORKERS").ok())
        .and_then(|s| s.parse().ok())
        .unwrap_or_else(|| std::thread::available_parallelism().map(|n| n.get()).unwrap_or(8).min(16));
    match args.first().map(|s| s.as_str()) {
        Some("check") => {
            let id = args.get(1).cloned().unwrap_or_else(|| usage());
            let tier = match arg(&args, "--tier").or_else(|| std::env::var("VERIF_TIER").ok()).as_deref() {
                Some("thorough") => Tier::Thorough,
                _ => Tier::Quick,
            };
            let seed: u64 = arg(&args, "--seed")
                .or_else(|| std::env::var("VERIF_SEED").ok())
                .and_then(|s| s.parse().ok())
                .unwrap_or(1);
            let mut scens = scen::for_property(&id);
            if let Some(name) = arg(&args, "--scenario") {
                scens.retain(|s| s.name == name);
            }
            if scens.is_empty() {
                eprintln!("no scenario for property {id}");
                std::process::exit(2);
            }
            println!("property={id} tier={} VERIF_SEED={seed} workers={workers}", tier.as_str());
            let opts = BatchOpts {
                tier,
                base_seed: seed,
                workers,
                runs_override: arg(&args, "--runs").and_then(|s| s.parse().ok()),
                wall_cap: Duration::from_secs(match tier { Tier::Quick => 600, Tier::Thorough => 7200 }),
                verif_dir: verif_dir.clone(),
            };
            let res = runner::run_batch(&scens, &opts);
            if arg(&args, "--scenario").is_none() && arg(&args, "--runs").is_none() || std::env::var("VERIF_WRITE_EVIDENCE").is_ok() {
                std::fs::create_dir_all(format!("{verif_dir}/evidence")).ok();
                std::fs::write(
                    format!("{verif_dir}/evidence/{id}.json"),
                    serde_json::to_string_pretty(&res.evidence).unwrap(),
                )
                .unwrap();
            }
            let c = &res.evidence["coverage"];
            println!(
                "runs={} distinct_nontrivial={} simulated_s={} wall_s={:.1} exit={}",
                c["evaluations"], c["distinct_nontrivial"], c["simulated_seconds"], res.evidence["wall_s"].as_f64().unwrap_or(0.0), res.exit
            );
            println!("faults_fired={}", c["faults_fired"]);
            println!("probes={}", c["probes"]);
            std::process::exit(res.exit);
        }
        Some("replay") => {
            let path = args.get(1).cloned().unwrap_or_else(|| usage());
            std::process::exit(runner::replay(&scen::all(), &path));
        }
        Some("selftest") => {
            let n: u64 = arg(&args, "--n").and_then(|s| s.parse().ok()).unwrap_or(16);
            let seed: u64 = arg(&args, "--seed").and_then(|s| s.parse().ok()).unwrap_or(1);
            let mut scens = scen::all();
            if let Some(only) = arg(&args, "--only") {
                scens.retain(|s| s.id == only || s.name == only);
            }
            std::process::exit(runner::selftest(&scens, n, seed, workers, args.iter().any(|a| a == "--print")));
        }
        Some("log") => {
            // sim log <scenario> <seed> [--tier thorough]: print the full event log of one run
            let name = args.get(1).cloned().unwrap_or_else(|| usage());
            let seed: u64 = args.get(2).and_then(|s| s.parse().ok()).unwrap_or_else(|| usage());
            let scen = scen::all().into_iter().find(|s| s.name == name).unwrap_or_else(|| usage());
            runner::install_panic_hook();
            let mut input = anemo_sim::world::RunInput::new(seed, if arg(&args, "--tier").as_deref() == Some("thorough") { Tier::Thorough } else { Tier::Quick });
            input.record_log = true;
            let out = runner::execute(scen, input);
            for l in &out.log {
                println!("{l}");
            }
            println!("# hash {:016x} sig {:016x} violation {:?}", out.log_hash, out.sig, out.violation.map(|v| v.class));
        }
        Some("list") => {
            for s in scen::all() {
                println!("{} {} quick={} thorough={}", s.id, s.name, s.quick_runs, s.thorough_runs);
            }
        }
        _ => usage(),
    }
}
