//! Small executable reference models, written from the property texts (not from the code).

/// Reference wire codec, from the layout text of C07: 8-byte preamble `anemo` + big-endian
/// version + zero byte, then two frames, each a 4-byte big-endian length followed by the payload:
/// the bincode header (request: route string, header map; response: u16 status, header map; bincode
/// = little-endian u64 lengths/counts, fixed-width little-endian integers) and the raw body.
pub mod wire {
    pub fn preamble(version: u16) -> [u8; 8] {
        let v = version.to_be_bytes();
        [b'a', b'n', b'e', b'm', b'o', v[0], v[1], 0]
    }

    fn put_str(out: &mut Vec<u8>, s: &str) {
        out.extend_from_slice(&(s.len() as u64).to_le_bytes());
        out.extend_from_slice(s.as_bytes());
    }

    fn put_map(out: &mut Vec<u8>, headers: &[(String, String)]) {
        out.extend_from_slice(&(headers.len() as u64).to_le_bytes());
        for (k, v) in headers {
            put_str(out, k);
            put_str(out, v);
        }
    }

    pub fn request_header(route: &str, headers: &[(String, String)]) -> Vec<u8> {
        let mut h = Vec::new();
        put_str(&mut h, route);
        put_map(&mut h, headers);
        h
    }

    pub fn response_header(status: u16, headers: &[(String, String)]) -> Vec<u8> {
        let mut h = Vec::new();
        h.extend_from_slice(&status.to_le_bytes());
        put_map(&mut h, headers);
        h
    }

    pub fn frame(out: &mut Vec<u8>, payload: &[u8]) {
        out.extend_from_slice(&(payload.len() as u32).to_be_bytes());
        out.extend_from_slice(payload);
    }

    pub fn encode_request(version: u16, route: &str, headers: &[(String, String)], body: &[u8]) -> Vec<u8> {
        let mut out = preamble(version).to_vec();
        frame(&mut out, &request_header(route, headers));
        frame(&mut out, body);
        out
    }

    pub fn encode_response(version: u16, status: u16, headers: &[(String, String)], body: &[u8]) -> Vec<u8> {
        let mut out = preamble(version).to_vec();
        frame(&mut out, &response_header(status, headers));
        frame(&mut out, body);
        out
    }

    pub struct Cursor<'a>(pub &'a [u8]);

    impl<'a> Cursor<'a> {
        fn take(&mut self, n: usize) -> Result<&'a [u8], String> {
            if self.0.len() < n {
                return Err("short".into());
            }
            let (a, b) = self.0.split_at(n);
            self.0 = b;
            Ok(a)
        }
        fn u64(&mut self) -> Result<u64, String> {
            Ok(u64::from_le_bytes(self.take(8)?.try_into().unwrap()))
        }
        fn string(&mut self) -> Result<String, String> {
            let n = self.u64()? as usize;
            String::from_utf8(self.take(n)?.to_vec()).map_err(|_| "utf8".to_string())
        }
        fn map(&mut self) -> Result<Vec<(String, String)>, String> {
            let n = self.u64()?;
            let mut out = Vec::new();
            for _ in 0..n {
                let k = self.string()?;
                let v = self.string()?;
                out.push((k, v));
            }
            Ok(out)
        }
        fn frame(&mut self) -> Result<&'a [u8], String> {
            let n = u32::from_be_bytes(self.take(4)?.try_into().unwrap()) as usize;
            self.take(n)
        }
    }

    #[derive(Debug, Clone, PartialEq, Eq)]
    pub struct Decoded {
        pub version: u16,
        pub route: Option<String>,
        pub status: Option<u16>,
        /// sorted by key
        pub headers: Vec<(String, String)>,
        /// as they appear on the wire
        pub headers_in_order: Vec<(String, String)>,
        pub body: Vec<u8>,
    }

    pub const STATUS_CODES: [u16; 8] = [200, 400, 404, 408, 429, 500, 505, 520];

    fn check_preamble(c: &mut Cursor) -> Result<u16, String> {
        let p = c.take(8)?;
        if &p[0..5] != b"anemo" || p[7] != 0 {
            return Err("preamble".into());
        }
        let v = u16::from_be_bytes([p[5], p[6]]);
        if v != 1 {
            return Err("version".into());
        }
        Ok(v)
    }

    /// Decodes exactly one request; trailing bytes are ignored (the stream decoder stops after
    /// the second frame).
    pub fn decode_request(bytes: &[u8]) -> Result<Decoded, String> {
        let mut c = Cursor(bytes);
        let version = check_preamble(&mut c)?;
        let mut h = Cursor(c.frame()?);
        let route = h.string()?;
        let headers_in_order = h.map()?;
        let mut headers = headers_in_order.clone();
        headers.sort();
        let body = c.frame()?.to_vec();
        Ok(Decoded { version, route: Some(route), status: None, headers, headers_in_order, body })
    }

    pub fn decode_response(bytes: &[u8]) -> Result<Decoded, String> {
        let mut c = Cursor(bytes);
        let version = check_preamble(&mut c)?;
        let mut h = Cursor(c.frame()?);
        let status = u16::from_le_bytes(h.take(2)?.try_into().unwrap());
        if !STATUS_CODES.contains(&status) {
            return Err("status".into());
        }
        let headers_in_order = h.map()?;
        let mut headers = headers_in_order.clone();
        headers.sort();
        let body = c.frame()?.to_vec();
        Ok(Decoded { version, route: None, status: Some(status), headers, headers_in_order, body })
    }
}

/// C11: deadline = min(local default, parsed header); unparsable header counts as absent.
pub fn deadline_ns(default_ns: Option<u64>, header: Option<&str>) -> Option<u64> {
    let parsed = header.and_then(|h| {
        if !h.is_empty() && h.bytes().all(|b| b.is_ascii_digit()) || h.starts_with('+') && h.len() > 1 && h[1..].bytes().all(|b| b.is_ascii_digit()) {
            h.parse::<u64>().ok()
        } else {
            None
        }
    });
    match (default_ns, parsed) {
        (None, None) => None,
        (Some(d), None) => Some(d),
        (None, Some(h)) => Some(h),
        (Some(d), Some(h)) => Some(d.min(h)),
    }
}

/// C13: earliest next background attempt after the k-th consecutive failure noticed at `t`.
pub fn backoff_ns(k: u64, step_ns: u64, max_ns: u64) -> u64 {
    max_ns.min(step_ns.saturating_mul(k))
}

/// C10: admission rule for an inbound connection.
#[derive(Clone, Copy, Debug, PartialEq, Eq)]
pub enum Affinity {
    High,
    Allowed,
    Never,
    Unknown,
}

pub fn admit(affinity: Affinity, limit: Option<usize>, established: usize) -> bool {
    match affinity {
        Affinity::Never => false,
        Affinity::High | Affinity::Allowed => true,
        Affinity::Unknown => limit.map(|l| established < l).unwrap_or(true),
    }
}

/// C05: which connection survives a simultaneous dial: the one dialed by the greater PeerId.
/// Returns true when the existing connection must be dropped in favour of the new one.
pub fn tie_break_drop_existing(own: &[u8; 32], remote: &[u8; 32], existing_inbound: bool, new_inbound: bool) -> bool {
    match (existing_inbound, new_inbound) {
        (true, true) | (false, false) => true, // same direction: the newer replaces the older
        // existing was dialed by remote, new is dialed by us: keep the one dialed by the greater id
        (true, false) => own > remote,
        (false, true) => remote > own,
    }
}
