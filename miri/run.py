#!/usr/bin/env python3
"""Driver of the thread-interleaving engine (DESIGN.md 13.8).

usage: run.py check <C10|C18|C19|C20> <quick|thorough>
       run.py replay <replay file>

The anemo-tower layers are driven by real threads under Miri; Miri's scheduler, seeded with
-Zmiri-seed, decides every preemption (at arbitrary points of synchronous code), so one
(case, seed) pair is one exactly repeatable interleaving. Exit status as for the simulator:
0 held / 1 violation (VIOLATION line printed) / 2 harness error. Known findings are matched
against /verif/known_findings.txt by (property, class, key), never written.
"""
import json, os, re, subprocess, sys, time

HERE = os.path.dirname(os.path.abspath(__file__))
VERIF = os.environ.get("VERIF_DIR", os.path.dirname(HERE))
PREEMPTION = "0.05"
# (cases, seeds per case) per tier; the case number selects limit / mode / thread count / senders
# C20 cases 36.. are the crowd cases (hundreds of refusals per interleaving: fewer seeds)
PLAN = {
    "quick": {"C10": [([0, 1], 24)], "C18": [(list(range(8)), 24)], "C19": [([1, 3, 5, 7, 9, 11, 13, 19], 24)], "C20": [([0, 1, 2, 4, 8, 10, 14, 22, 27, 38, 39], 24), ([36, 37], 8)]},
    "thorough": {"C10": [([0, 1], 512)], "C18": [(list(range(8)), 512)], "C19": [(list(range(24)), 256)], "C20": [(list(range(36)) + [38, 39], 256), ([36, 37], 96)]},
}


def known_findings():
    out = []
    try:
        for line in open(os.path.join(VERIF, "known_findings.txt")):
            line = line.strip()
            if not line.startswith("finding:"):
                continue
            head, _, text = line[len("finding:"):].partition("::")
            kv = dict(t.split("=", 1) for t in head.split() if "=" in t)
            out.append((kv.get("property"), kv.get("class"), kv.get("key"), text.strip()))
    except FileNotFoundError:
        pass
    return out


def miri(prop, case, seeds=None, seed=None):
    """Runs one case over a range of seeds (or one seed). Returns (held_count, failure or None, harness_error or None);
    failure = (seed, class, key, message)."""
    flags = f"-Zmiri-preemption-rate={PREEMPTION} "
    flags += f"-Zmiri-seed={seed}" if seed is not None else f"-Zmiri-many-seeds={seeds[0]}..{seeds[1]}"
    env = dict(os.environ, MIRIFLAGS=flags, CARGO_NET_OFFLINE="true")
    p = subprocess.run(["cargo", "+nightly", "miri", "run", "--offline", "-q", "--", prop, str(case)], cwd=HERE, env=env, capture_output=True, text=True, errors="replace")
    out = p.stdout + "\n" + p.stderr
    held = len(re.findall(r"^held " + prop, out, re.M)) + len(re.findall(r"Trying seed: held " + prop, out))
    if p.returncode == 0:
        return held, None, None
    failing = re.search(r"FAILING SEED: (\d+)", out)
    s = int(failing.group(1)) if failing else seed
    m = re.search(r"MIRI-VIOLATION class=(\S+) key=(\S+) :: (.*)", out)
    if m:
        return held, (s, m.group(1), m.group(2), m.group(3).strip()), None
    # an error detected by Miri itself in the code under test
    m = re.search(r"^error: (.*)$", out, re.M)
    if m and s is not None and ("deadlock" in m.group(1) or "Undefined Behavior" in m.group(1) or "data race" in out.lower()):
        kind = "deadlock" if "deadlock" in m.group(1) else ("data-race" if "data race" in out.lower() else "undefined-behaviour")
        return held, (s, "miri-" + kind, "-", m.group(1).strip()), None
    # a panic in the code under test (a thread of the case panicked)
    pm = re.search(r"panicked at ([^\n]*)", out)
    if pm and s is not None:
        where = re.sub(r"^.*?/crates/", "crates/", pm.group(1).strip()).rstrip(":")
        msg = out[pm.end():].strip().splitlines()[0] if out[pm.end():].strip() else ""
        return held, (s, "panic", re.sub(r":\d+$", "", where), f"panicked at {where}: {msg}"[:300]), None
    if re.search(r"could not compile|error\[E\d+\]", out):
        return held, None, "build of the thread-interleaving engine (with /repo's current tree) failed:\n" + "\n".join(l for l in out.splitlines() if l.startswith("error"))[:2000]
    if m and s is not None:
        return held, (s, "miri-error", "-", m.group(1).strip()), None
    return held, None, "unexpected output from cargo miri:\n" + out[-2000:]


def write_replay(prop, case, seed, cls, key, msg):
    d = os.path.join(VERIF, "replays")
    os.makedirs(d, exist_ok=True)
    path = os.path.join(d, f"{prop}-threads-case{case}-seed{seed}-{re.sub(r'[^A-Za-z0-9-]', '_', cls)}.json")
    json.dump({"engine": "miri", "property": prop, "scenario": "layers-under-threads" if prop != "C10" else "known-peer-table-under-threads", "case": case, "seed": seed, "preemption_rate": PREEMPTION,
               "class": cls, "key": key, "message": msg,
               "how": f"cd /verif/miri && MIRIFLAGS='-Zmiri-preemption-rate={PREEMPTION} -Zmiri-seed={seed}' cargo +nightly miri run --offline -- {prop} {case}"}, open(path, "w"), indent=1)
    return path


def check(prop, tier):
    groups = PLAN[tier][prop]
    cases = [c for g in groups for c in g[0]]
    seeds_of = {c: g[1] for g in groups for c in g[0]}
    known = known_findings()
    t0 = time.time()
    runs = 0
    known_seen = {}
    violations = []
    harness = None
    for case in cases:
        n_seeds = seeds_of[case]
        lo = 0
        while lo < n_seeds:
            held, fail, err = miri(prop, case, seeds=(lo, n_seeds))
            if err:
                harness = err
                break
            if fail is None:
                runs += n_seeds - lo
                break
            seed, cls, key, msg = fail
            runs += seed - lo + 1
            kf = next((k for k in known if k[0] == prop and k[1] == cls and k[2] == key), None)
            if kf:
                e = known_seen.setdefault((cls, key), [0, kf[3], case, seed])
                e[0] += 1
                lo = seed + 1
                continue
            path = write_replay(prop, case, seed, cls, key, msg)
            print(f"scenario={prop.lower()}-{'layers' if prop != 'C10' else 'known-peer-table'}-under-threads case={case} seed={seed} class={cls} key={key}: {msg}")
            violations.append(path)
            break
        if violations or harness:
            break
    wall = time.time() - t0
    for (cls, key), (n, text, case, seed) in known_seen.items():
        print(f"KNOWN-FINDING: property={prop} {text} [{cls} {key}; thread-interleaving engine, first at case {case} seed {seed}; seen in {n} interleavings]")
    for pth in violations:
        print(f"VIOLATION property={prop} replay={pth}")
    n_seeds = groups[0][1]
    print(f"threads-engine: interleavings={runs} cases={len(cases)} seeds_per_case={'/'.join(str(g[1]) for g in groups)} wall_s={wall:.1f} exit={1 if violations else (2 if harness else 0)}")
    if harness:
        print("HARNESS ERROR: " + harness, file=sys.stderr)
    # merge into the evidence file the simulator has just written
    ev_path = os.path.join(VERIF, "evidence", f"{prop}.json")
    try:
        ev = json.load(open(ev_path))
    except Exception:
        ev = {"property_id": prop, "tier": tier, "level": "exploration", "coverage": {"evaluations": 0, "distinct_nontrivial": 0, "rule": "", "samples": []}}
    cov = ev.setdefault("coverage", {})
    cov["thread_interleaving_engine"] = {
        "what": ("the real anemo-tower layer driven by 2-4 real threads (each one request through a clone, futures' block_on)" if prop != "C10" else "anemo's real KnownPeers table read by two threads (get, get_all: what admission and the background dialer do) while 1-2 threads insert and remove other entries") + " under Miri's seeded scheduler with preemption at arbitrary points of synchronous code; one (case, seed) = one exactly repeatable interleaving",
        "interleavings": runs, "cases": cases, "seeds_per_case": n_seeds, "preemption_rate": float(PREEMPTION),
        "interleavings_per_hour": int(runs / wall * 3600) if wall > 0 else 0,
        "known_findings_seen": [{"finding": f"{c} {k}", "interleavings": v[0], "text": v[1]} for (c, k), v in known_seen.items()],
        "violations": len(violations),
        "components_real": ["anemo-tower layer under test" if prop != "C10" else "anemo::KnownPeers", "governor / dashmap / tokio::sync (real code, interpreted)", "std threads, mutexes, atomics (Miri)"],
        "components_stubbed": ["scheduler and clock (Miri: seeded preemption, virtual monotonic clock)", "wrapped service and callers (harness)", "governor's cycle-counter clock (manifest-only variant without quanta, as in the simulator)"],
    }
    cov["evaluations"] = cov.get("evaluations", 0) + runs
    ev["violations"] = ev.get("violations", 0) + len(violations)
    rule = cov.get("rule", "")
    if prop == "C10" and "[known-peer-table-under-threads]" not in rule:
        cov["rule"] = rule + " [known-peer-table-under-threads] one run = one (case, Miri seed): two reader threads look up entries nobody touches while 1-2 writer threads insert and remove other entries of the same KnownPeers table; distinct = each (case, seed)"
    elif prop != "C10" and "[layers-under-threads]" not in rule:
        cov["rule"] = rule + " [layers-under-threads] one run = one (case, Miri seed): 2-4 real threads send their requests through clones of one layered service at the same moment; distinct = each (case, seed)"
    os.makedirs(os.path.dirname(ev_path), exist_ok=True)
    json.dump(ev, open(ev_path, "w"), indent=1)
    return 1 if violations else (2 if harness else 0)


def replay(path):
    d = json.load(open(path))
    held, fail, err = miri(d["property"], d["case"], seed=d["seed"])
    if err:
        print("HARNESS ERROR: " + err, file=sys.stderr)
        return 2
    if fail is None:
        print(f"replay: no violation (expected class {d['class']})")
        return 0
    _, cls, key, msg = fail
    print(f"replay: {'reproduced' if cls == d['class'] else 'different violation'} [{cls}] {msg}")
    print(f"VIOLATION property={d['property']} replay={path}")
    return 1


if __name__ == "__main__":
    if len(sys.argv) >= 4 and sys.argv[1] == "check":
        sys.exit(check(sys.argv[2], sys.argv[3]))
    if len(sys.argv) >= 3 and sys.argv[1] == "replay":
        sys.exit(replay(sys.argv[2]))
    print(__doc__)
    sys.exit(2)
