//! anemo-tower's layers under real threads and Miri's seeded scheduler.
//!
//! usage: layers <C18|C19|C20> <case number>
//! One process = one case = one thread interleaving (decided by -Zmiri-seed). A violated oracle
//! prints "MIRI-VIOLATION <class>: <message>" and exits with status 1.

use anemo::types::response::StatusCode;
use anemo::{PeerId, Request, Response};
use bytes::Bytes;
use std::sync::atomic::{AtomicI64, AtomicU64, Ordering::SeqCst};
use std::sync::{Arc, Condvar, Mutex};
use tower::{Layer, Service, ServiceExt};

fn violation(class: &str, msg: String) -> ! {
    violation_k(class, "-", msg)
}

/// `key` identifies the input / history shape for the known-findings file
fn violation_k(class: &str, key: &str, msg: String) -> ! {
    println!("MIRI-VIOLATION class={class} key={key} :: {msg}");
    std::process::exit(1);
}

fn peer(i: u8) -> PeerId {
    PeerId([i; 32])
}

// ---------------------------------------------------------------------------------------------
// C20
// ---------------------------------------------------------------------------------------------

/// A crowd of senders that are not on the list, refused concurrently through clones: whatever the
/// layer keeps about the requests it refuses is shared by its clones and grows with the number of
/// distinct senders. Every refusal must come back (a deadlock is reported by Miri), with NotFound.
fn c20_crowd(case: u64) {
    use anemo_tower::auth::{AllowedPeers, RequireAuthorizationLayer};
    let threads = 2 + (case % 2) as u32;
    let per_thread = 180u32;
    let inner = tower::service_fn(move |_req: Request<Bytes>| async move { Ok::<_, std::convert::Infallible>(Response::new(Bytes::from_static(b"served"))) });
    let svc = RequireAuthorizationLayer::new(AllowedPeers::new([peer(1), peer(2)])).layer(inner);
    let mut hs = Vec::new();
    for t in 0..threads {
        let svc = svc.clone();
        hs.push(std::thread::spawn(move || {
            for k in 0..per_thread {
                let mut id = [0xD0u8; 32];
                id[..4].copy_from_slice(&(t * 100_000 + k).to_be_bytes());
                // (a sender that comes back now and then, and a listed one in between)
                let sender = if k % 17 == 5 { peer(1) } else if k % 13 == 7 { PeerId([0xD1; 32]) } else { PeerId(id) };
                let req = Request::new(Bytes::new()).with_extension(sender);
                let resp = futures::executor::block_on(svc.clone().oneshot(req)).unwrap();
                let want = if sender == peer(1) { StatusCode::Success } else { StatusCode::NotFound };
                if resp.status() != want {
                    violation("allow-list-verdict-wrong", format!("request {k} of thread {t} (one of a crowd of unlisted senders) got {:?}, expected {want:?}", resp.status()));
                }
            }
        }));
    }
    for h in hs {
        h.join().unwrap();
    }
}

/// All threads send requests of the *same* listed sender through clones at the same moment (a
/// listed sender is listed whoever else of its requests is being authorized right now), with an
/// unlisted sender's requests in between.
fn c20_same_sender(case: u64) {
    use anemo_tower::auth::{AllowedPeers, RequireAuthorizationLayer};
    let threads = 2 + (case % 2) as u8;
    let served = Arc::new(AtomicU64::new(0));
    let s2 = served.clone();
    let inner = tower::service_fn(move |_req: Request<Bytes>| {
        s2.fetch_add(1, SeqCst);
        async move { Ok::<_, std::convert::Infallible>(Response::new(Bytes::from_static(b"served"))) }
    });
    let svc = RequireAuthorizationLayer::new(AllowedPeers::new([peer(1), peer(2), peer(3)])).layer(inner);
    let mut hs = Vec::new();
    for t in 0..threads {
        let svc = svc.clone();
        hs.push(std::thread::spawn(move || {
            let mut accepted = 0u64;
            for round in 0..5u8 {
                let sender = if round == 3 { peer(200 + t) } else { peer(2) };
                let resp = futures::executor::block_on(svc.clone().oneshot(Request::new(Bytes::new()).with_extension(sender))).unwrap();
                let want = if round == 3 { StatusCode::NotFound } else { StatusCode::Success };
                if resp.status() != want {
                    violation("allow-list-verdict-wrong", format!("round {round} of thread {t}: sender {} got {:?}, expected {want:?} (all threads send requests of listed sender 2 at the same moment)", sender.0[0], resp.status()));
                }
                if want == StatusCode::Success {
                    accepted += 1;
                }
            }
            accepted
        }));
    }
    let accepted: u64 = hs.into_iter().map(|h| h.join().unwrap()).sum();
    if served.load(SeqCst) != accepted {
        violation("service-invocations-differ-from-acceptances", format!("served {}, accepted {accepted}", served.load(SeqCst)));
    }
}

fn c20(case: u64) {
    use anemo_tower::auth::{AllowedPeers, RequireAuthorizationLayer};
    if case >= 38 {
        return c20_same_sender(case);
    }
    if case >= 36 {
        return c20_crowd(case);
    }
    let list_len = [1u8, 3, 40][(case % 3) as usize];
    let threads = 2 + (case / 3 % 3) as u8; // 2..4
    let served: Arc<Mutex<Vec<u64>>> = Default::default();
    let s2 = served.clone();
    let inner = tower::service_fn(move |req: Request<Bytes>| {
        let id: u64 = req.headers().get("id").and_then(|v| v.parse().ok()).unwrap();
        s2.lock().unwrap().push(id);
        async move { Ok::<_, std::convert::Infallible>(Response::new(Bytes::from(format!("served-{id}")))) }
    });
    let allowed: Vec<PeerId> = (1..=list_len).map(peer).collect();
    let svc = RequireAuthorizationLayer::new(AllowedPeers::new(allowed.clone())).layer(inner);
    // the very first authorizations of the instance, concurrently, through clones: listed senders
    // (the last entries of the list among them), unlisted ones and requests without a sender
    let mut hs = Vec::new();
    for t in 0..threads {
        let svc = svc.clone();
        let kind = (case / 9 + t as u64) % 4;
        let sender = match kind {
            0 => Some(peer(list_len)),             // listed (last entry)
            1 => Some(peer(1)),                    // listed (first entry)
            2 => Some(peer(200 + t)),              // unlisted
            _ => None,                             // no sender identity
        };
        hs.push(std::thread::spawn(move || {
            let mut out = Vec::new();
            for round in 0..2u64 {
                let id = t as u64 * 10 + round;
                let mut req = Request::new(Bytes::new()).with_header("id", id.to_string());
                if let Some(s) = sender {
                    req = req.with_extension(s);
                }
                let resp = futures::executor::block_on(svc.clone().oneshot(req)).unwrap();
                out.push((id, sender, resp.status(), resp.into_body()));
            }
            out
        }));
    }
    let mut want_served = Vec::new();
    for h in hs {
        for (id, sender, status, body) in h.join().unwrap() {
            let listed = sender.map(|s| allowed.contains(&s)).unwrap_or(false);
            let want = match sender {
                None => StatusCode::InternalServerError,
                Some(_) if listed => StatusCode::Success,
                Some(_) => StatusCode::NotFound,
            };
            if status != want {
                violation("allow-list-verdict-wrong", format!("request {id} (sender {:?}, listed = {listed}) got {status:?}, expected {want:?}", sender.map(|s| s.0[0])));
            }
            if listed {
                want_served.push(id);
                if body != Bytes::from(format!("served-{id}")) {
                    violation("response-is-not-the-services", format!("request {id}"));
                }
            }
        }
    }
    let mut got = served.lock().unwrap().clone();
    got.sort();
    want_served.sort();
    if got != want_served {
        violation("service-invocations-differ-from-acceptances", format!("served {got:?}, accepted {want_served:?}"));
    }
}

// ---------------------------------------------------------------------------------------------
// C19
// ---------------------------------------------------------------------------------------------

fn c19(case: u64) {
    use anemo_tower::rate_limit::{RateLimitLayer, WaitMode, WAIT_NANOS_HEADER};
    let burst = 1 + (case % 2) as u32;
    let threads = 2 + (case / 2 % 3) as u8;
    let admitted: Arc<Mutex<Vec<(u8, u64)>>> = Default::default();
    let a2 = admitted.clone();
    let inner = tower::service_fn(move |req: Request<Bytes>| {
        let id: u64 = req.headers().get("id").and_then(|v| v.parse().ok()).unwrap();
        a2.lock().unwrap().push((req.peer_id().unwrap().0[0], id));
        async move { Ok::<_, anemo::rpc::Status>(Response::new(Bytes::new())) }
    });
    let quota = governor::Quota::per_hour(std::num::NonZeroU32::new(burst).unwrap());
    let layer = RateLimitLayer::new(quota, WaitMode::ReturnError);
    let svc = layer.layer(inner);
    // the first requests of a peer, concurrently through clones; one thread is another peer
    let mut hs = Vec::new();
    for t in 0..threads {
        let svc = svc.clone();
        let p = if t == threads - 1 && case / 6 % 2 == 0 { peer(9) } else { peer(1) };
        let rounds = 1 + case / 12 % 2;
        hs.push(std::thread::spawn(move || {
            let mut out = Vec::new();
            for round in 0..rounds {
                let id = t as u64 * 10 + round;
                let req = Request::new(Bytes::new()).with_header("id", id.to_string()).with_extension(p);
                let r = futures::executor::block_on(svc.clone().oneshot(req));
                out.push((p.0[0], id, r.map(|_| ()).map_err(|s| (s.status(), s.headers().get(WAIT_NANOS_HEADER).cloned()))));
            }
            out
        }));
    }
    let mut sent: std::collections::BTreeMap<u8, u64> = Default::default();
    let mut refused_ids = Vec::new();
    // refusals whose hint says "retry now" (1 ns): the cell was available by the time the hint
    // was computed
    let mut retry_now: std::collections::BTreeMap<u8, u64> = Default::default();
    for h in hs {
        for (p, id, r) in h.join().unwrap() {
            *sent.entry(p).or_default() += 1;
            if let Err((status, hint)) = r {
                refused_ids.push(id);
                let n = hint.as_ref().and_then(|h| h.parse::<u128>().ok());
                let ok = status == StatusCode::TooManyRequests && n.map(|n| n > 0).unwrap_or(false);
                if !ok {
                    violation_k("refusal-without-valid-wait-hint", &format!("wait-nanos={}", hint.as_deref().unwrap_or("absent")), format!("request {id}: {status:?} {hint:?}"));
                }
                if n == Some(1) {
                    *retry_now.entry(p).or_default() += 1;
                }
            }
        }
    }
    let adm = admitted.lock().unwrap().clone();
    for (p, n) in &sent {
        let got = adm.iter().filter(|(q, _)| q == p).count() as u64;
        let want = (*n).min(burst as u64);
        if got > burst as u64 {
            violation("quota-exceeded", format!("{got} requests of peer {p} admitted within one instant, burst {burst}, one cell per hour"));
        }
        if got != want {
            // fewer than the burst although as many were sent, all at one instant
            let key = if retry_now.get(p).copied().unwrap_or(0) >= want - got { "refusal-says-retry-now" } else { "-" };
            violation_k("request-within-quota-refused", key, format!("peer {p} sent {n} requests at one instant, burst {burst}, one cell per hour: {got} admitted, expected {want}; {} refusals carried the hint 'retry now'", retry_now.get(p).copied().unwrap_or(0)));
        }
    }
    for id in refused_ids {
        if adm.iter().any(|(_, i)| *i == id) {
            violation("refused-request-reached-service", format!("request {id}"));
        }
    }
}

// ---------------------------------------------------------------------------------------------
// C18
// ---------------------------------------------------------------------------------------------

struct Gate {
    entered: AtomicI64,
    max: AtomicI64,
    total_entered: AtomicU64,
    done: Mutex<(u64, u64)>, // (entered so far, refused so far)
    cv: Condvar,
    open: tokio::sync::Semaphore,
}

fn c18(case: u64) {
    use anemo_tower::inflight_limit::{InflightLimitLayer, WaitMode};
    let limit = 1 + (case % 2) as usize;
    let block = case / 2 % 2 == 1;
    let threads = limit as u8 + 1 + (case / 4 % 2) as u8;
    let gate = Arc::new(Gate { entered: AtomicI64::new(0), max: AtomicI64::new(0), total_entered: AtomicU64::new(0), done: Mutex::new((0, 0)), cv: Condvar::new(), open: tokio::sync::Semaphore::new(0) });
    let g2 = gate.clone();
    let inner = tower::service_fn(move |_req: Request<Bytes>| {
        let g = g2.clone();
        async move {
            let n = g.entered.fetch_add(1, SeqCst) + 1;
            g.max.fetch_max(n, SeqCst);
            g.total_entered.fetch_add(1, SeqCst);
            {
                let mut d = g.done.lock().unwrap();
                d.0 += 1;
                g.cv.notify_all();
            }
            // hold the slot until the main thread opens the gate
            let _ = g.open.acquire().await.unwrap();
            g.entered.fetch_sub(1, SeqCst);
            Ok::<_, anemo::rpc::Status>(Response::new(Bytes::new()))
        }
    });
    let layer = InflightLimitLayer::new(limit, if block { WaitMode::Block } else { WaitMode::ReturnError });
    let svc = layer.layer(inner);
    let mut hs = Vec::new();
    for t in 0..threads {
        let svc = svc.clone();
        let gate = gate.clone();
        // one thread is another peer: it must get a slot of its own
        let p = if t == threads - 1 { peer(9) } else { peer(1) };
        hs.push(std::thread::spawn(move || {
            let req = Request::new(Bytes::new()).with_extension(p);
            let r = futures::executor::block_on(svc.oneshot(req));
            if r.is_err() {
                let mut d = gate.done.lock().unwrap();
                d.1 += 1;
                gate.cv.notify_all();
            }
            (p.0[0], r.map(|_| ()).map_err(|s| s.status()))
        }));
    }
    let same_peer = threads as u64 - 1;
    // wait until every request has either entered the service or been refused (ReturnError), or
    // until the limit is reached for peer 1 and the other peer is in (Block)
    {
        let mut d = gate.done.lock().unwrap();
        let want_entered = (same_peer.min(limit as u64)) + 1;
        loop {
            let settled = if block { d.0 >= want_entered } else { d.0 + d.1 >= threads as u64 };
            if settled {
                break;
            }
            d = gate.cv.wait(d).unwrap();
        }
    }
    let max_now = gate.max.load(SeqCst);
    if max_now > limit as i64 + 1 {
        violation("inflight-limit-exceeded", format!("{max_now} requests inside the service at once (limit {limit} per peer, two peers)"));
    }
    gate.open.add_permits(1_000);
    let mut ok = 0u64;
    let mut refused = 0u64;
    let mut other_ok = false;
    for h in hs {
        match h.join().unwrap() {
            (9, Ok(())) => other_ok = true,
            (9, Err(s)) => violation("one-peer-consumed-anothers-slot", format!("the only request of the second peer was answered {s:?}")),
            (_, Ok(())) => ok += 1,
            (_, Err(StatusCode::TooManyRequests)) => refused += 1,
            (_, Err(s)) => violation("unexpected-status", format!("{s:?}")),
        }
    }
    if !other_ok {
        violation("one-peer-consumed-anothers-slot", "the second peer's request was not served".into());
    }
    if block {
        if refused != 0 || ok != same_peer {
            violation("block-mode-refused", format!("{refused} refused, {ok} of {same_peer} served"));
        }
    } else if ok != same_peer.min(limit as u64) || refused != same_peer - ok {
        violation("excess-request-not-refused", format!("limit {limit}, {same_peer} simultaneous requests of one peer: {ok} served, {refused} refused"));
    }
    if gate.max.load(SeqCst) > limit as i64 + 1 {
        violation("inflight-limit-exceeded", format!("max {} (limit {limit} per peer, two peers)", gate.max.load(SeqCst)));
    }
    // no slot leaked: limit-many further requests of peer 1 are all admitted at once
    let mut hs = Vec::new();
    for _ in 0..limit {
        let svc = svc.clone();
        hs.push(std::thread::spawn(move || futures::executor::block_on(svc.oneshot(Request::new(Bytes::new()).with_extension(peer(1)))).is_ok()));
    }
    for h in hs {
        if !h.join().unwrap() {
            violation("capacity-leaked", format!("after the history a request within the limit {limit} was refused"));
        }
    }
}

// ---------------------------------------------------------------------------------------------
// C10 / C13: the known-peer table that application threads share with the connection manager
// ---------------------------------------------------------------------------------------------

/// Readers (what the admission rule and the background dialer do: `get`, `get_all`) next to
/// application threads that insert and remove *other* entries. An entry nobody touches is found,
/// with the affinity it has always had, at every instant: a lookup that comes back empty because
/// somebody is writing elsewhere in the table would turn a Never peer into an unknown one.
fn c10(case: u64) {
    use anemo::types::{PeerAffinity, PeerInfo};
    let writers = 1 + (case % 2) as u8;
    let kp = anemo::KnownPeers::new();
    kp.insert(PeerInfo { peer_id: peer(1), affinity: PeerAffinity::Never, address: vec![] });
    kp.insert(PeerInfo { peer_id: peer(2), affinity: PeerAffinity::High, address: vec![] });
    let mut hs = Vec::new();
    for t in 0..writers {
        let kp = kp.clone();
        hs.push(std::thread::spawn(move || {
            for k in 0..12u8 {
                let id = peer(100 + 20 * t + k % 5);
                if k % 3 == 2 {
                    kp.remove(&id);
                } else {
                    kp.insert(PeerInfo { peer_id: id, affinity: PeerAffinity::Allowed, address: vec![] });
                }
            }
        }));
    }
    for r in 0..2u8 {
        let kp = kp.clone();
        hs.push(std::thread::spawn(move || {
            for k in 0..10u8 {
                let (id, want) = if (k + r) % 2 == 0 { (peer(1), "Never") } else { (peer(2), "High") };
                let got = match kp.get(&id).map(|i| i.affinity) {
                    Some(PeerAffinity::Never) => "Never",
                    Some(PeerAffinity::High) => "High",
                    Some(_) => "other",
                    None => "unknown",
                };
                if got != want {
                    violation("known-peer-lookup-inconsistent", format!("lookup {k} of reader {r}: the entry of peer {} (affinity {want} since before any thread started, never touched) was read as {got} while other threads inserted and removed other entries", id.0[0]));
                }
                if k % 4 == 3 {
                    let all = kp.get_all();
                    if !all.iter().any(|i| i.peer_id == peer(1)) || !all.iter().any(|i| i.peer_id == peer(2)) {
                        violation("known-peer-lookup-inconsistent", format!("get_all() of reader {r} misses an entry nobody touches ({} entries)", all.len()));
                    }
                }
            }
        }));
    }
    for h in hs {
        h.join().unwrap();
    }
}

fn main() {
    let args: Vec<String> = std::env::args().collect();
    let case: u64 = args.get(2).and_then(|s| s.parse().ok()).unwrap_or(0);
    match args.get(1).map(|s| s.as_str()) {
        Some("C18") => c18(case),
        Some("C19") => c19(case),
        Some("C20") => c20(case),
        Some("C10") => c10(case),
        _ => {
            eprintln!("usage: layers <C10|C18|C19|C20> <case>");
            std::process::exit(2);
        }
    }
    println!("held {} case {case}", args[1]);
}
